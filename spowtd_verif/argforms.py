"""Forms in which a caller of the Python functions may hand over an array of levels.

A hydraulic function is a function of the numbers, not of their container: the same
levels as a list, a tuple, a float64 array, a read-only array, a reversed or strided view, a
big-endian array, and -- for whole-number levels -- as Python ints, int64 / int32 arrays, must
give the values the scalar calls give; the argument must come back unchanged; and a second
evaluation of the very same object must agree with the first."""


def array_forms(levels):
    """[(name, argument, order)]: argument[i] is levels[order[i]]"""
    import numpy as np

    n = len(levels)
    ident = list(range(n))
    base = np.array(levels, dtype='float64')
    out = [
        ('float64-array', base.copy(), ident),
        ('list-of-floats', [float(v) for v in levels], ident),
        ('tuple-of-floats', tuple(float(v) for v in levels), ident),
        ('list-of-numpy-scalars', [np.float64(v) for v in levels], ident),
    ]
    ro = base.copy()
    ro.setflags(write=False)
    out.append(('read-only-array', ro, ident))
    out.append(('reversed-view', base.copy()[::-1], ident[::-1]))
    wide = np.empty(2 * n, dtype='float64')
    wide[0::2] = base
    wide[1::2] = -12345.678
    out.append(('strided-view', wide[0::2], ident))
    out.append(('big-endian-array', base.astype('>f8'), ident))
    out.append(('column-of-a-2-d-array', np.column_stack([base, base + 1.0])[:, 0], ident))
    whole = [i for i, v in enumerate(levels) if float(v).is_integer() and abs(v) < 2 ** 31]
    if whole:
        ints = [int(levels[i]) for i in whole]
        out.append(('list-of-ints', list(ints), whole))
        out.append(('int64-array', np.array(ints, dtype='int64'), whole))
        out.append(('int32-array', np.array(ints, dtype='int32'), whole))
        mixed = [int(v) if i in whole and k % 2 == 0 else float(v) for k, (i, v) in enumerate(zip(ident, levels))]
        out.append(('list-mixing-ints-and-floats', mixed, ident))
    return out


def snapshot(argument):
    import numpy as np

    if isinstance(argument, np.ndarray):
        return argument.tobytes(), argument.dtype.str, argument.shape
    return repr(argument)


def check_forms(rec, function, levels, scalar_values, prefix, case, module, counter, exact=True, rel_tol=0.0):
    """Run function over every form; report through rec.violation.  Returns False after the
    first violation"""
    import numpy as np

    from . import core

    for name, argument, order in array_forms(levels):
        before = snapshot(argument)
        expected = np.array([scalar_values[i] for i in order], dtype='float64')
        results = []
        for attempt in (1, 2):
            try:
                got = function(argument)
            except Exception as exc:  # pylint: disable=broad-except
                desc = core.describe_exception(exc)
                if desc['origin'] == 'harness':
                    rec.inconclusive_because('harness exception: {}'.format(desc))
                    return False
                rec.violation(prefix + 'array-form-refused-although-the-scalars-are-accepted',
                              {'form': name, 'attempt': attempt, 'exception': desc, 'levels': [levels[i] for i in order][:6]}, case, module)
                return False
            results.append(np.asarray(got, dtype='float64'))
            if snapshot(argument) != before:
                rec.violation(prefix + 'argument-array-is-modified-by-the-call', {'form': name, 'attempt': attempt}, case, module)
                return False
        for attempt, got in enumerate(results, 1):
            ok = got.shape == expected.shape and (
                np.array_equal(got, expected) if exact else
                bool(np.all(np.abs(got - expected) <= rel_tol * np.abs(expected))))
            if not ok:
                rec.violation(prefix + ('array-and-scalar-results-differ' if attempt == 1 else 'second-evaluation-of-the-same-array-differs'),
                              {'form': name, 'attempt': attempt, 'levels_in_call_order': [levels[i] for i in order][:6],
                               'array': got.tolist()[:6] if got.ndim else float(got), 'scalar': expected.tolist()[:6]}, case, module)
                return False
        rec.hit(counter + ':' + name)
    rec.hit(counter)
    return True
