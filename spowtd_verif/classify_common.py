"""Shared workload and monitors for C01-C04 (classification)."""

import os
import sqlite3

from . import core, data, gen_series, instrument, oracle_classify

PROPS = ('C01', 'C02', 'C03', 'C04')


# ---------------------------------------------------------------------------
# L1 contracts on the real classify functions


def _runs(mask):
    return oracle_classify.runs(list(mask))


def post_true_interval_masks(c, args, kwargs, result):
    import numpy as np

    vec = np.asarray(args[0])
    masks = [np.asarray(m) for m in result]
    exp = _runs(vec.tolist())
    got = []
    ok = len(masks) == len(exp)
    for m in masks:
        idx = np.nonzero(m)[0]
        if len(m) != len(vec) or len(idx) == 0 or (np.diff(idx) != 1).any():
            ok = False
            break
        got.append((int(idx[0]), int(idx[-1]) + 1))
    if not ok or got != exp:
        c.report('C03', 'contract:get_true_interval_masks',
                 {'vector': vec.astype(int).tolist()[:80], 'got': got[:20], 'expected': exp[:20]})
        c.report('C04', 'contract:get_true_interval_masks',
                 {'vector': vec.astype(int).tolist()[:80], 'got': got[:20], 'expected': exp[:20]})
    return iter(masks)


def post_mystery_jump_mask(c, args, kwargs, result):
    is_jump = [bool(x) for x in args[0]]
    is_raining = [bool(x) for x in args[1]]
    exp = []
    last = None
    for i in range(len(is_jump)):
        if is_raining[i]:
            last = i
            exp.append(False)
        else:
            clean = last is not None and not any(is_jump[k] for k in range(last + 1, i + 1))
            exp.append(not clean)
    got = [bool(x) for x in result]
    if got != exp:
        c.report('C04', 'contract:get_mystery_jump_mask',
                 {'is_jump': [int(x) for x in is_jump][:80], 'is_raining': [int(x) for x in is_raining][:80],
                  'got': [int(x) for x in got][:80], 'expected': [int(x) for x in exp][:80]})
    return None


def post_match_storms(c, args, kwargs, result):
    import numpy as np

    rain, head, rthr, jthr = (list(args) + [kwargs.get(k) for k in ()])[:4]
    rain = np.asarray(rain, dtype=float)
    head = np.asarray(head, dtype=float)
    rain_intervals, head_intervals = result
    rain_intervals = [tuple(int(v) for v in x) for x in rain_intervals]
    head_intervals = [tuple(int(v) for v in x) for x in head_intervals]
    problems = []
    if len(rain_intervals) != len(head_intervals):
        problems.append('lengths differ')
    if len(set(rain_intervals)) != len(rain_intervals) or len(set(head_intervals)) != len(head_intervals):
        problems.append('an interval appears twice')
    st = set(_runs((rain > rthr).tolist()))
    ri = set((a, b + 1) for a, b in _runs((np.diff(head) > jthr).tolist()))
    for r, h in zip(rain_intervals, head_intervals):
        if r not in st:
            problems.append('rain interval {} is not a maximal run'.format(r))
        if h not in ri:
            problems.append('head interval {} is not a maximal run'.format(h))
        if not max(r[0], h[0]) < min(r[1], h[1] - 1):
            problems.append('pair {} {} shares no step'.format(r, h))
    if problems:
        c.report('C01', 'contract:match_storms',
                 {'problems': problems[:5], 'rain_intervals': rain_intervals[:10], 'head_intervals': head_intervals[:10]})
    return None


def blocking_pairs(storm_candidates, jump_preferences, matches):
    """storm_candidates: storm -> list of jumps worst..best (as given to the
    function); jump_preferences: jump -> {storm: quality}; matches jump->storm"""
    sm = {s: j for j, s in matches.items()}
    rank = {s: {j: i for i, j in enumerate(js)} for s, js in storm_candidates.items()}
    out = []
    for s, js in storm_candidates.items():
        for j in js:
            if matches.get(j) == s:
                continue
            # storm side: position in its list is its (weak) order; a storm
            # strictly prefers j only if j comes strictly later in the list
            s_ok = s not in sm or rank[s][j] > rank[s][sm[s]]
            j_ok = j not in matches or jump_preferences[j][s] > jump_preferences[j][matches[j]]
            if s_ok and j_ok:
                out.append((s, j))
    return out


def post_find_stable_matching(c, args, kwargs, result):
    storm_candidates, jump_preferences = args[0], args[1]
    matches = dict(result)
    problems = []
    if len(set(matches.values())) != len(matches):
        problems.append('a storm is matched twice')
    for j, s in matches.items():
        if s not in storm_candidates or j not in storm_candidates[s]:
            problems.append('match ({}, {}) is not a candidate'.format(s, j))
    if not problems:
        # the candidate lists carry ties only through equal qualities, which
        # the data-level walker knows; here the list order is the preference
        bp = blocking_pairs(storm_candidates, jump_preferences, matches)
        if bp:
            problems.append('blocking pairs under list-order preferences: {}'.format(bp[:3]))
    if problems:
        c.report('C02', 'contract:find_stable_matching',
                 {'problems': problems[:4], 'storm_candidates': storm_candidates,
                  'jump_preferences': jump_preferences, 'matches': matches})
    return None


def install_contracts(contracts):
    import spowtd.classify as cl

    contracts.wrap(cl, 'get_true_interval_masks', post_true_interval_masks, snapshot=False)
    contracts.wrap(cl, 'get_mystery_jump_mask', post_mystery_jump_mask, snapshot=False)
    contracts.wrap(cl, 'match_storms', post_match_storms, snapshot=False)
    contracts.wrap(cl, 'find_stable_matching', post_find_stable_matching, snapshot=True)


# ---------------------------------------------------------------------------
# Running one case


def has_water_level(connection):
    return connection.execute('SELECT count(*) FROM water_level').fetchone()[0] > 0


def classify_case(ctx, case, via, contracts, index=0):
    """Load + classify one series case with the real code.

    via: 'function' (classify_intervals on an in-memory dataset),
         'cli' (spowtd.user_interface.main on files), or
         'subprocess' (bin/spowtd).
    Returns (connection or None, outcome dict)
    """
    import spowtd.classify as cl

    outcome = {'via': via}
    if via == 'function':
        try:
            connection = data.load_case(case)
        except Exception as exc:  # load refused: outside the domain
            outcome['load_exception'] = core.describe_exception(exc)
            return None, outcome
        try:
            # the caller's connection may carry a row factory
            if index % 5 == 3:
                connection.row_factory = sqlite3.Row
                outcome['row_factory'] = True
            # a threshold is a number: the caller may hand over an int or a numpy scalar
            outcome['threshold_form'] = index % 3
            if index % 7 == 5:
                # the caller has logging configured at DEBUG
                outcome['debug_logging'] = True
                with data.library_logging('DEBUG'):
                    cl.classify_intervals(connection, data.num_form(case['sthr'], index), data.num_form(case['jthr'], index // 3 + 1))
            else:
                cl.classify_intervals(connection, data.num_form(case['sthr'], index), data.num_form(case['jthr'], index // 3 + 1))
        except Exception as exc:  # pylint: disable=broad-except
            connection.row_factory = None
            outcome['classify_exception'] = core.describe_exception(exc)
            outcome['has_water_level'] = has_water_level(connection)
            connection.rollback()
            return connection, outcome
        connection.row_factory = None
        return connection, outcome
    paths = data.write_case_files(case, ctx.workdir, 'c{}'.format(index))
    db = os.path.join(ctx.workdir, 'c{}.sqlite3'.format(index))
    if os.path.exists(db):
        os.remove(db)
    load_argv = ['load', db, '-p', paths[0], '-e', paths[1], '-z', paths[2], '--timezone', case.get('tz', 'UTC')]
    cls_argv = ['classify', db, '-s', data.num_arg(case['sthr'], index), '-j', data.num_arg(case['jthr'], index // 4)]
    # message verbosity is an option like any other: -v, -vv, -vvv with the log sent to a file
    verbosity = index % 4
    if verbosity:
        cls_argv += ['-' + 'v' * verbosity, '--logfile', os.path.join(ctx.workdir, 'c{}.log'.format(index))]
        outcome['verbosity'] = verbosity
    if via == 'cli':
        status, exc = data.cli(load_argv)
        if exc is not None or status != 0:
            outcome['load_exception'] = core.describe_exception(exc) if exc else {'status': status}
            return None, outcome
        status, exc = data.cli(cls_argv)
        connection = sqlite3.connect(db)
        if exc is not None or status != 0:
            outcome['classify_exception'] = core.describe_exception(exc) if exc else {'type': 'exit', 'message': str(status), 'site': None, 'origin': 'spowtd'}
            outcome['has_water_level'] = has_water_level(connection)
        return connection, outcome
    # subprocess through bin/spowtd
    import subprocess
    import sys

    env = dict(os.environ)
    env['PYTHONPATH'] = core.REPO
    if os.environ.get('SPOWTD_VERIF_OPTIMIZE') == '1':
        env['PYTHONOPTIMIZE'] = '1'
    exe = [sys.executable, '-B', os.path.join(core.REPO, 'bin', 'spowtd')]
    p = subprocess.run(exe + load_argv, env=env, capture_output=True, text=True, timeout=300)
    if p.returncode != 0:
        outcome['load_exception'] = {'status': p.returncode, 'stderr': p.stderr[-300:]}
        return None, outcome
    p = subprocess.run(exe + cls_argv, env=env, capture_output=True, text=True, timeout=300)
    connection = sqlite3.connect(db)
    if p.returncode != 0:
        last = p.stderr.strip().splitlines()[-1] if p.stderr.strip() else ''
        outcome['classify_exception'] = {'type': last.split(':')[0][:60], 'message': last[:300], 'site': None, 'origin': 'spowtd'}
        outcome['has_water_level'] = has_water_level(connection)
    return connection, outcome


def exception_key(desc):
    site = desc.get('site')
    return 'classify-raises:{}@{}'.format(desc.get('type'), site[0] if site else '?')


def check_case(ctx, prop, case, via, contracts, index=0):
    """Run one case and feed the Recorder of ctx for property `prop`"""
    rec = ctx.rec
    rec.case()
    contract_reports = []
    contracts.sink = lambda p, k, w: contract_reports.append((p, k, w))
    connection, outcome = classify_case(ctx, case, via, contracts, index)
    contracts.sink = None
    rec.hit('runs-via-' + via)
    if outcome.get('row_factory'):
        rec.hit('function-runs-on-a-connection-with-a-row-factory')
    if outcome.get('debug_logging'):
        rec.hit('function-runs-with-logging-at-debug')
    if via == 'function' and isinstance(data.num_form(case['jthr'], index // 3 + 1), int):
        rec.hit('function-runs-with-an-int-jump-threshold')
    if outcome.get('verbosity'):
        rec.hit('cli-runs-with-verbosity-{}'.format(outcome['verbosity']))
    if connection is None:
        rec.hit('load-refused (outside the domain)')
        return
    try:
        if 'classify_exception' in outcome:
            desc = outcome['classify_exception']
            refusal = desc.get('type') == 'ValueError' and 'No valid data intervals' in (desc.get('message') or '')
            if refusal and not outcome.get('has_water_level'):
                rec.hit('deliberate-refusal-no-gridded-water-level')
                return
            if desc.get('origin') == 'harness':
                rec.inconclusive_because('harness exception while classifying: {}'.format(desc))
                return
            if prop == 'C01' and (case['sthr'] <= 0 or case['jthr'] <= 0):
                rec.hit('classification-raised-with-a-zero-threshold (outside the positive thresholds of C01)')
            elif prop == 'C01':
                rec.violation(exception_key(desc), {'exception': desc, 'via': via}, case, 'classify')
            else:
                rec.hit('unobservable-classification-raised')
                rec.inconclusive_because(
                    'classification raised {} -- {} cannot be observed on that dataset (C01 reports it)'.format(
                        desc.get('type'), prop))
            return
        rec.hit('classifications-completed')
        if len(case['rain']) >= 2000:
            rec.hit('classifications-of-records-with-2000+-steps')
        findings, stats = oracle_classify.walk(connection, case['sthr'], case['jthr'])
        for p, k, w in contract_reports:
            findings.append((p, k, w))
        for name, n in stats.items():
            if name not in ('signature', 'contended'):
                rec.hit(name, n)
        for p, k, w in findings:
            if p == prop:
                rec.violation(k, w, case, 'classify')
        nontrivial = nontrivial_for(prop, stats)
        if nontrivial:
            rec.mark_nontrivial(core.digest(stats['signature']))
            rec.sample({'step_s': case['step'], 'sthr': case['sthr'], 'jthr': case['jthr'],
                        'n_steps': len(case['rain']), 'force': case.get('force'),
                        'rain_mm_h': case['rain'][:12], 'z_first': case['z'][:6],
                        'pairs': stats.get('pairs', 0), 'candidates': stats.get('candidate-pairs', 0),
                        'interstorm_intervals': stats.get('interstorm-intervals', 0)})
    finally:
        connection.close()


def nontrivial_for(prop, stats):
    if prop == 'C01':
        return stats.get('candidate-pairs', 0) >= 1
    if prop == 'C02':
        return bool(stats.get('contended'))
    if prop == 'C03':
        return stats.get('pairs', 0) >= 1
    if prop == 'C04':
        return bool(stats.get('datasets-with-interstorm-and-unexplained'))
    return False


def run_corpus(ctx, prop, n_total, n_cli=0, n_subprocess=0, field_grid=None):
    """The G-series corpus through function / CLI / subprocess, plus the
    field datasets x threshold grid (thorough)."""
    contracts = instrument.Contracts()
    install_contracts(contracts)
    try:
        n = ctx.share(n_total)
        ncli = ctx.share(n_cli)
        nsub = ctx.share(n_subprocess)
        rng = ctx.rng('series')
        for i in range(n):
            gi = i * ctx.nshards + ctx.shard
            case = gen_series.gen_indexed(rng, gi)
            via = 'function'
            if case.get('force') == 'threshold_zero' and ncli and (i // len(gen_series.FEATURES)) % 2 == 0:
                via = 'cli'
            if i < nsub:
                via = 'subprocess'
            elif i < nsub + ncli:
                via = 'cli'
            if via == 'subprocess':
                contracts.sink = None
            check_case(ctx, prop, case, via, contracts, index=i)
        if field_grid:
            run_field(ctx, prop, field_grid, contracts)
    finally:
        contracts.uninstall()
    for name, n in contracts.evaluations.items():
        ctx.rec.hit('contract-evaluations:' + name, n)


# ---------------------------------------------------------------------------
# Field data shipped with the repository's tests


def field_paths(sample):
    base = os.path.join(core.REPO, 'spowtd', 'test', 'sample_data')
    return [os.path.join(base, '{}_{}.txt'.format(kind, sample))
            for kind in ('precipitation', 'evapotranspiration', 'water_level')]


_FIELD_CACHE = {}


def load_field(sample):
    import spowtd.load as load_mod

    if sample not in _FIELD_CACHE:
        connection = sqlite3.connect(':memory:')
        p, e, z = field_paths(sample)
        with open(p, encoding='utf-8-sig') as pf, open(e, encoding='utf-8-sig') as ef, open(z, encoding='utf-8-sig') as zf:
            load_mod.load_data(connection, pf, ef, zf, 'Africa/Lagos')
        _FIELD_CACHE[sample] = connection
    return data.copy_db(_FIELD_CACHE[sample])


def run_field(ctx, prop, grid, contracts):
    """grid: list of (sample, sthr, jthr); distributed over the shards"""
    import spowtd.classify as cl

    rec = ctx.rec
    for k, (sample, sthr, jthr) in enumerate(grid):
        if k % ctx.nshards != ctx.shard:
            continue
        rec.case()
        rec.hit('field-dataset-runs')
        reports = []
        contracts.sink = lambda p, kk, w: reports.append((p, kk, w))
        connection = load_field(sample)
        case = {'kind': 'field', 'sample': sample, 'sthr': sthr, 'jthr': jthr}
        try:
            cl.classify_intervals(connection, sthr, jthr)
        except Exception as exc:  # pylint: disable=broad-except
            desc = core.describe_exception(exc)
            if prop == 'C01':
                rec.violation(exception_key(desc), {'exception': desc, 'via': 'field'}, case, 'classify')
            else:
                rec.inconclusive_because('classification of field data raised {}'.format(desc.get('type')))
            continue
        finally:
            contracts.sink = None
        findings, stats = oracle_classify.walk(connection, sthr, jthr)
        findings.extend(reports)
        for name, n in stats.items():
            if name not in ('signature', 'contended'):
                rec.hit('field:' + name, n)
        for p, kk, w in findings:
            if p == prop:
                rec.violation(kk, w, case, 'classify')
        if nontrivial_for(prop, stats):
            rec.mark_nontrivial(core.digest(('field', sample, sthr, jthr)))
        connection.close()


def field_grid(seed, n):
    rng = core.make_rng(seed, 'field-grid')
    grid = [(1, 8.0, 5.0), (2, 8.0, 5.0), (2, 4.0, 5.0), (2, 4.0, 0.5)]
    while len(grid) < n:
        grid.append((rng.choice([1, 2]), rng.choice([1.0, 2.0, 4.0, 6.0, 8.0, 12.0]),
                     rng.choice([0.5, 1.0, 2.0, 5.0, 8.0, 12.0])))
    return grid[:n]


def replay_case(ctx, prop, case):
    contracts = instrument.Contracts()
    install_contracts(contracts)
    try:
        if case.get('kind') == 'field':
            run_field(ctx, prop, [(case['sample'], case['sthr'], case['jthr'])], contracts)
        else:
            check_case(ctx, prop, case, 'function', contracts)
            check_case(ctx, prop, case, 'cli', contracts, index=1)
    finally:
        contracts.uninstall()
