"""Core of the spowtd runtime-monitoring framework.

* import hook: spowtd is always compiled from the *source files* of the
  repository's current working tree (no byte-code cache is read or written);
* Recorder: per-shard bookkeeping of what the monitors observed;
* helpers for seeds, hashing, exception origin, JSON-safe conversion.
"""

import hashlib
import importlib.machinery
import json
import math
import os
import random
import sys
import traceback

HOME = os.environ.get(
    'SPOWTD_VERIF_HOME', os.path.dirname(os.path.dirname(os.path.abspath(__file__)))
)
REPO = os.path.realpath(os.environ.get('SPOWTD_REPO', '/repo'))
WORK_ROOT = os.path.join(HOME, '.work')


# ---------------------------------------------------------------------------
# Import spowtd from source, never from a byte-code cache


class _NoCacheLoader(importlib.machinery.SourceFileLoader):
    def get_code(self, fullname):
        path = self.get_filename(fullname)
        # SPOWTD_VERIF_OPTIMIZE=1: compile spowtd (and only spowtd) the way `python -O` /
        # PYTHONOPTIMIZE=1 would: assert statements are dropped
        level = 1 if os.environ.get('SPOWTD_VERIF_OPTIMIZE') == '1' else -1
        return compile(self.get_data(path), path, 'exec', dont_inherit=True, optimize=level)


def _repo_hook(path):
    real = os.path.realpath(path)
    if not (real == REPO or real.startswith(REPO + os.sep)):
        raise ImportError
    return importlib.machinery.FileFinder(path, (_NoCacheLoader, ['.py']))


def install_repo_import_hook():
    sys.dont_write_bytecode = True
    if _repo_hook not in sys.path_hooks:
        sys.path_hooks.insert(0, _repo_hook)
        sys.path_importer_cache.clear()
    if REPO not in sys.path:
        sys.path.insert(0, REPO)


# ---------------------------------------------------------------------------
# Seeds and hashes


def sub_seed(*parts):
    h = hashlib.sha256(repr(parts).encode()).digest()
    return int.from_bytes(h[:8], 'big')


def make_rng(*parts):
    return random.Random(sub_seed(*parts))


def digest(obj):
    """Short stable hash of a JSON-able object"""
    return hashlib.sha1(
        json.dumps(obj, sort_keys=True, default=repr).encode()
    ).hexdigest()[:16]


def jsonable(obj):
    """Convert numpy scalars / arrays / tuples / sets to plain JSON values"""
    try:
        import numpy as np
    except ImportError:  # pragma: no cover
        np = None
    if isinstance(obj, dict):
        return {str(k): jsonable(v) for k, v in obj.items()}
    if isinstance(obj, (list, tuple)):
        return [jsonable(v) for v in obj]
    if isinstance(obj, (set, frozenset)):
        return sorted((jsonable(v) for v in obj), key=repr)
    if np is not None:
        if isinstance(obj, np.ndarray):
            return [jsonable(v) for v in obj.tolist()]
        if isinstance(obj, np.generic):
            return jsonable(obj.item())
    if isinstance(obj, float):
        if math.isnan(obj) or math.isinf(obj):
            return repr(obj)
        return obj
    if isinstance(obj, (int, str, bool)) or obj is None:
        return obj
    return repr(obj)


# ---------------------------------------------------------------------------
# Where did an exception come from?


def exception_origin(exc):
    """'spowtd' if any frame of the traceback is inside the repository,
    else 'harness'"""
    tb = exc.__traceback__
    in_repo = False
    for frame, _ in traceback.walk_tb(tb):
        fn = os.path.realpath(frame.f_code.co_filename)
        if fn.startswith(REPO + os.sep):
            in_repo = True
    return 'spowtd' if in_repo else 'harness'


def exception_site(exc):
    """(function name, file basename) of the innermost repository frame"""
    site = None
    for frame, lineno in traceback.walk_tb(exc.__traceback__):
        fn = os.path.realpath(frame.f_code.co_filename)
        if fn.startswith(REPO + os.sep):
            site = (frame.f_code.co_name, os.path.basename(fn), lineno)
    return site


def describe_exception(exc):
    site = exception_site(exc)
    return {
        'type': type(exc).__name__,
        'message': str(exc)[:300],
        'site': list(site) if site else None,
        'origin': exception_origin(exc),
    }


# ---------------------------------------------------------------------------
# Recorder


class Recorder:
    """What the monitors of one shard observed"""

    MAX_SAMPLES = 4
    MAX_VIOLATIONS = 40

    def __init__(self, prop, tier, seed, shard, nshards, replay_dir):
        self.prop = prop
        self.tier = tier
        self.seed = seed
        self.shard = shard
        self.nshards = nshards
        self.replay_dir = replay_dir
        self.evaluations = 0
        self.counters = {}
        self.maxima = {}
        self.nontrivial = set()
        self.samples = []
        self.violations = []
        self.inconclusive = []
        self._replays_written = {}

    # -- counting
    def case(self, n=1):
        self.evaluations += n

    def hit(self, name, n=1):
        self.counters[name] = self.counters.get(name, 0) + n

    def note_max(self, name, value):
        value = float(value)
        if not (value == value):
            return
        if value > self.maxima.get(name, -math.inf):
            self.maxima[name] = value

    def mark_nontrivial(self, key):
        self.nontrivial.add(key if isinstance(key, str) else digest(key))

    def sample(self, obj):
        if len(self.samples) < self.MAX_SAMPLES:
            self.samples.append(jsonable(obj))

    # -- verdict material
    def violation(self, key, witness, case=None, module=None):
        """Record a violation.

        key: mechanism key (what kind of thing failed); used for
        de-duplication, for known-finding classification and in file names.
        witness: what was observed versus expected.
        case: everything needed to re-run the case (JSON-able).
        """
        self.hit('violation:' + key)
        if len(self.violations) >= self.MAX_VIOLATIONS:
            return
        entry = {
            'key': key,
            'witness': jsonable(witness),
            'replay': None,
        }
        n = self._replays_written.get(key, 0)
        if case is not None and n < 2:
            self._replays_written[key] = n + 1
            os.makedirs(self.replay_dir, exist_ok=True)
            path = os.path.join(
                self.replay_dir,
                '{}-{}-s{}-{}of{}-{}.json'.format(
                    self.prop,
                    key.replace('/', '_').replace(' ', '_')[:60],
                    self.seed,
                    self.shard,
                    self.nshards,
                    n,
                ),
            )
            with open(path, 'w') as f:
                json.dump(
                    {
                        'property': self.prop,
                        'key': key,
                        'tier': self.tier,
                        'seed': self.seed,
                        'shard': [self.shard, self.nshards],
                        'module': module,
                        'witness': jsonable(witness),
                        'case': jsonable(case),
                    },
                    f,
                    indent=1,
                )
            entry['replay'] = path
        self.violations.append(entry)

    def inconclusive_because(self, reason):
        if len(self.inconclusive) < 20:
            self.inconclusive.append(str(reason)[:500])

    # -- (de)serialisation for the shard → parent hand-over
    def to_dict(self):
        return {
            'evaluations': self.evaluations,
            'counters': self.counters,
            'maxima': self.maxima,
            'nontrivial': sorted(self.nontrivial),
            'samples': self.samples,
            'violations': self.violations,
            'inconclusive': self.inconclusive,
        }


def merge_shards(dicts):
    out = {
        'evaluations': 0,
        'counters': {},
        'maxima': {},
        'nontrivial': set(),
        'samples': [],
        'violations': [],
        'inconclusive': [],
    }
    for d in dicts:
        out['evaluations'] += d['evaluations']
        for k, v in d['counters'].items():
            out['counters'][k] = out['counters'].get(k, 0) + v
        for k, v in d['maxima'].items():
            out['maxima'][k] = max(out['maxima'].get(k, -math.inf), v)
        out['nontrivial'].update(d['nontrivial'])
        for s in d['samples']:
            if len(out['samples']) < 5:
                out['samples'].append(s)
        out['violations'].extend(d['violations'])
        out['inconclusive'].extend(d['inconclusive'])
    return out


# ---------------------------------------------------------------------------
# Known findings


def load_known_findings():
    """Parse known-findings.txt → {(property, key): text} for 'finding:' lines.
    'fixed:' lines suppress nothing and are ignored here."""
    path = os.path.join(HOME, 'known-findings.txt')
    findings = {}
    if not os.path.exists(path):
        return findings
    with open(path) as f:
        for line in f:
            line = line.strip()
            if not line.startswith('finding:'):
                continue
            fields = line[len('finding:'):].split()
            prop = key = None
            rest = []
            for fld in fields:
                if fld.startswith('property=') and prop is None:
                    prop = fld.split('=', 1)[1]
                elif fld.startswith('key=') and key is None:
                    key = fld.split('=', 1)[1]
                else:
                    rest.append(fld)
            if prop and key:
                findings[(prop, key)] = ' '.join(rest)
    return findings
