"""Shared drivers for the master-curve checks (C05, C06, C08, C09, C13, C17-C19)"""

import os
import sqlite3

from . import core, data


def classify_outcome(exc):
    """Map an exception of rise / recession to a mechanism key"""
    desc = core.describe_exception(exc)
    msg = desc['message']
    if desc['type'] == 'ValueError' and 'empty series list' in msg:
        return 'refusal:no-intervals', desc
    if desc['type'] == 'ValueError' and 'max() iterable argument is empty' in msg or (
            desc['type'] == 'ValueError' and 'arg is an empty sequence' in msg):
        return 'main-body-single-interval', desc
    if desc['type'] in ('AssertionError', 'IndexError') and desc['site'] and desc['site'][0] == 'get_series_time_offsets':
        # (IndexError: the same situation when assert statements are compiled away, python -O)
        # no interval crosses any grid level: there is no curve to assemble
        # (len(head_mappings) == 1 fails on an empty component list)
        return 'refusal:no-level-crossed', desc
    if desc['type'] == 'ValueError' and 'not evenly divisible' in msg:
        return 'refusal:reference-off-grid', desc
    if desc['type'] == 'KeyError' and desc['site'] and desc['site'][0] in ('compute_offsets', 'compute_rise_offsets'):
        return 'refusal:reference-level-not-in-curve', desc
    if desc['type'] == 'ValueError' and 'Discrete water level interval not yet set' in msg:
        return 'refusal:no-grid', desc
    return 'raises:{}@{}'.format(desc['type'], desc['site'][0] if desc['site'] else '?'), desc


def build_dataset(ctx, case, via='function', index=0, upto=('classify', 'grid')):
    """load -> classify -> set-zeta-grid with the real code.  Returns
    (connection, db_path or None, error)"""
    import spowtd.classify as cl
    import spowtd.zeta_grid as zg

    gs = case.get('grid_step', 1.0)
    if via == 'function':
        connection = data.load_case(case)
        try:
            # the caller's numbers may be ints or numpy scalars, the connection may carry a row factory
            if index % 5 == 4:
                connection.row_factory = sqlite3.Row
            cl.classify_intervals(connection, data.num_form(case['sthr'], index), data.num_form(case['jthr'], index + 1))
            zg.populate_zeta_grid(connection, data.num_form(gs, index + 2))
            connection.commit()
        except Exception as exc:  # pylint: disable=broad-except
            connection.row_factory = None
            connection.rollback()
            return connection, None, exc
        connection.row_factory = None  # the walkers read plain tuples
        return connection, None, None
    paths = data.write_case_files(case, ctx.workdir, 'w{}'.format(index))
    db = os.path.join(ctx.workdir, 'w{}.sqlite3'.format(index))
    for f in (db, db + '-journal'):
        if os.path.exists(f):
            os.remove(f)
    for argv in (
        ['load', db, '-p', paths[0], '-e', paths[1], '-z', paths[2], '--timezone', case.get('tz', 'UTC')],
        ['classify', db, '-s', data.num_arg(case['sthr'], index), '-j', data.num_arg(case['jthr'], index + 1)],
        ['set-zeta-grid', db, '-d', data.num_arg(gs, index + 2)],
    ):
        status, exc = data.cli(argv)
        if exc is not None or status != 0:
            return None, db, exc or RuntimeError('exit status {} from {}'.format(status, argv[0]))
    return sqlite3.connect(db), db, None


def run_curve(connection, kind, reference_mm=None, db=None, verbosity=0, row_factory=False, rollback=True):
    """rise / recession with the real code; via CLI when db is given.
    verbosity 1-3: -v / -vv / -vvv with the log sent to a file (CLI); logging configured at
    DEBUG by the caller when 3 (functions).  Returns exception or None"""
    import spowtd.recession as rec
    import spowtd.rise as rise

    if db is not None:
        argv = [kind, db] + (['-r', repr(float(reference_mm))] if reference_mm is not None else [])
        if verbosity:
            argv += ['-' + 'v' * verbosity, '--logfile', db + '.log']
        status, exc = data.cli(argv)
        if exc is None and status != 0:
            exc = RuntimeError('exit status {}'.format(status))
        return exc
    f = rec.find_recession_offsets if kind == 'recession' else rise.find_rise_offsets
    try:
        if row_factory:
            connection.row_factory = sqlite3.Row
        if verbosity >= 3:
            with data.library_logging('DEBUG'):
                f(connection, reference_mm)
        else:
            f(connection, reference_mm)
    except Exception as exc:  # pylint: disable=broad-except
        connection.row_factory = None
        if rollback:
            connection.rollback()
        return exc
    connection.row_factory = None
    return None


def clear_curve(connection, kind):
    """Remove an assembled curve (harness convenience for re-running with
    another reference on the same classified dataset)"""
    if kind == 'recession':
        connection.execute('DELETE FROM recession_interval_zeta')
        connection.execute('DELETE FROM recession_interval')
    else:
        connection.execute('DELETE FROM rising_interval_zeta')
        connection.execute('DELETE FROM rising_interval')
    connection.commit()


def make_curves_db(ctx, case, path, curvature=None):
    """Dataset with both master curves assembled (real code, function level),
    written to `path`.  Returns an error key or None."""
    import spowtd.set_curvature as sc

    connection, _, exc = build_dataset(ctx, case, 'function')
    if exc is not None:
        if connection is not None:
            connection.close()
        return 'dataset-could-not-be-built'
    try:
        for kind in ('rise', 'recession'):
            exc = run_curve(connection, kind)
            if exc is not None:
                key, _ = classify_outcome(exc)
                return kind + ':' + key
        if curvature is not None:
            sc.set_curvature(connection, curvature)
            connection.commit()
        for f in (path, path + '-journal'):
            if os.path.exists(f):
                os.remove(f)
        disk = sqlite3.connect(path)
        connection.backup(disk)
        disk.close()
    finally:
        connection.close()
    return None


def write_yaml(path, params):
    import yaml

    with open(path, 'w') as f:
        yaml.safe_dump(params, f)
    return path
