"""Dataset-level workload for the master-curve properties: datasets from
G-planted / noisy / G-series generators -> real load, classify, set-zeta-grid,
rise, recession -> curve walker -> findings for the property being checked."""

from . import core, curves_common, gen_planted, gen_series, oracle_curves


def span_zero(case):
    """Shift a record so that its median water level is 0 mm (grid level 0 and
    levels of both signs then occur in the curves)"""
    zs = sorted(v for _, v in case['z'])
    shift = -round(zs[len(zs) // 2])
    case = dict(case)
    case['z'] = [[t, v + shift] for t, v in case['z']]
    if 'truth' in case:
        case['truth'] = [dict(tr, R=[r + shift for r in tr['R']]) for tr in case['truth']]
    return case


def with_flat_interstorm(case, rng):
    """The same record with one stretch of a dry spell, between two steps of drizzle, during
    which the water level does not move at all (a logger with coarse resolution, a float stuck
    for a few hours): an interstorm interval that is classified but crosses no grid level.
    Returns (case, True) or (case, False) when the record has no dry spell long enough"""
    step = case['step']
    rain = list(case['rain'])
    z = {t: v for t, v in case['z']}
    n = len(rain)
    runs = []
    i = 0
    while i < n:
        if rain[i] == 0 and i * step in z:
            j = i
            while j < n and rain[j] == 0 and j * step in z:
                j += 1
            if j - i >= 10 and any(r > 0 for r in rain[:i]):
                runs.append((i, j))
            i = j
        else:
            i += 1
    if not runs:
        return case, False
    i, j = rng.choice(runs)
    d0 = rng.randint(i + 1, j - 8)
    d1 = d0 + rng.randint(4, 6)
    drizzle = min(0.1, case['sthr'] / 4.0) if case['sthr'] > 0 else 0.0
    if drizzle <= 0:
        return case, False
    rain[d0] = rain[d1] = drizzle
    for k in range(d0 + 1, d1 + 1):
        z[k * step] = z[(d0 + 1) * step]
    out = dict(case, rain=rain, z=[[t, z[t]] for t, _ in case['z']], flat_interstorm=[(d0 + 1) * step, d1 * step])
    return out, True


def make_case(rng, i):
    if i % 12 == 7:
        return gen_planted.gen_slow(rng)
    if i % 12 == 11:
        return gen_planted.gen_repeating(rng)
    if i % 24 == 13:
        # a long record: a hundred or more intervals in one curve
        return gen_planted.gen(rng, n_events=rng.randint(120, 300), gaps=rng.randint(0, 3))
    case = _make_case(rng, i)
    if i % 5 == 3:
        case = span_zero(case)
    return case


def _make_case(rng, i):
    kind = i % 6
    if kind in (0, 1):
        return gen_planted.gen(rng)
    if kind == 2:
        return gen_planted.gen(rng, two_bands=True)
    if kind in (3, 4):
        case = gen_planted.gen_noisy(rng)
        if kind == 4 and i % 12 == 4:
            # a logger that reports tenths of a millimetre, on a grid of tenths: readings sit exactly
            # on levels whose quotient level / step is not exact in binary
            case = dict(case, z=[[t, round(v, 1)] for t, v in case['z']], grid_step=rng.choice([0.1, 0.2, 0.3]))
            zs = [v for _, v in case['z']]
            if (max(zs) - min(zs)) / case['grid_step'] > 2500:
                case['grid_step'] = 0.5
        return case
    case = gen_series.gen(rng, force='long', dyadic=True)
    zs = [v for _, v in case['z']]
    # keep the number of grid levels moderate: these records can span metres
    span = max(zs) - min(zs)
    steps = [g for g in (0.125, 0.25, 0.5, 1.0, 2.0, 4.0, 8.0, 16.0, 64.0) if span / g <= 2500]
    case['grid_step'] = rng.choice(steps[:3] or [64.0])
    return case


def repeat_steps(ctx, prop, case, connection, db, via, kinds, index):
    """Multi-step session: after the curves are assembled, the user changes
    the grid step and runs rise / recession again.  Whether spowtd refuses or
    accepts the repeated commands, the tables must still satisfy the walker."""
    import sqlite3
    import spowtd.zeta_grid as zg
    from . import data

    rec = ctx.rec
    rng = ctx.rng('session', index)
    new_gs = case.get('grid_step', 1.0) * rng.choice([2.0, 0.5, 3.0])
    log = []
    if via == 'cli':
        connection.close()
        status, exc = data.cli(['set-zeta-grid', db, '-d', repr(float(new_gs))])
        log.append(('set-zeta-grid', 'refused' if (exc is not None or status != 0) else 'accepted'))
        for kind in kinds:
            exc = curves_common.run_curve(None, kind, None, db)
            log.append((kind, 'refused' if exc is not None else 'accepted'))
        connection = sqlite3.connect(db)
    else:
        try:
            zg.populate_zeta_grid(connection, new_gs)
            connection.commit()
            log.append(('set-zeta-grid', 'accepted'))
        except Exception:  # pylint: disable=broad-except
            connection.rollback()
            log.append(('set-zeta-grid', 'refused'))
        for kind in kinds:
            exc = curves_common.run_curve(connection, kind)
            log.append((kind, 'refused' if exc is not None else 'accepted'))
    rec.hit('sessions-with-repeated-steps')
    for step, outcome in log:
        rec.hit('repeated-{}-{}'.format(step, outcome))
    for kind in kinds:
        findings, stats = oracle_curves.walk_curve(connection, kind, None, None)
        for p, k, w in findings:
            if p == prop:
                rec.violation('after-repeated-steps:' + k, dict(w, session=log), dict(case, session=True), 'dataset')
    return connection


def reassemble_with_reference(ctx, prop, case, connection, db, via, kinds, index):
    """The curves are taken apart and assembled again with a reference level picked from the
    levels of the curve itself (any level, not only those the highest interval crosses); the
    walker must still be satisfied"""
    import sqlite3

    rec = ctx.rec
    rng = ctx.rng('reference', index)
    gs = case.get('grid_step', 1.0)
    for kind in kinds:
        table = 'recession_interval_zeta' if kind == 'recession' else 'rising_interval_zeta'
        levels = [r[0] for r in connection.execute('SELECT DISTINCT zeta_number FROM {} ORDER BY 1'.format(table))]
        if len(levels) < 2:
            continue
        k = rng.choice(levels)
        curves_common.clear_curve(connection, kind)
        if via == 'cli':
            connection.close()
        exc = curves_common.run_curve(connection, kind, k * gs, db if via == 'cli' else None)
        if via == 'cli':
            connection = sqlite3.connect(db)
        if exc is not None:
            key, desc = curves_common.classify_outcome(exc)
            rec.hit('reassembly-with-a-reference-refused:' + key)
            continue
        rec.hit('curves-reassembled-with-a-reference-level')
        findings, stats = oracle_curves.walk_curve(connection, kind, k, None)
        for p, key, w in findings:
            if p == prop:
                rec.violation('with-a-reference-level:' + key, dict(w, reference_mm=k * gs), dict(case, reference={kind: k * gs}), 'dataset')
    return connection


def run_dataset(ctx, prop, case, via='function', index=0, reference=None, kinds=('rise', 'recession'), nontrivial=None, session=False, with_reference=False):
    """Returns dict kind -> (findings, stats) for the curves that assembled"""
    rec = ctx.rec
    rec.case()
    connection, db, exc = curves_common.build_dataset(ctx, case, via, index)
    if exc is not None:
        desc = core.describe_exception(exc)
        rec.hit('dataset-could-not-be-built (C01/C10 report it)')
        if connection is not None:
            connection.close()
        return {}
    out = {}
    try:
        for kind in kinds:
            # message verbosity is an option like any other (0-3, cycling with the dataset index)
            verbosity = (index // 2) % 4
            if verbosity == 3:
                rec.hit('curves-assembled-with-debug-messages-on')
            exc = curves_common.run_curve(connection, kind, None if reference is None else reference.get(kind), db if via == 'cli' else None,
                                          verbosity=verbosity, row_factory=(via == 'function' and index % 5 == 4))
            if via == 'function' and index % 5 == 4:
                rec.hit('curves-assembled-on-a-connection-with-a-row-factory')
            if exc is not None:
                key, desc = curves_common.classify_outcome(exc)
                if desc['origin'] == 'harness':
                    rec.inconclusive_because('harness exception in {}: {}'.format(kind, desc))
                    continue
                comps, ids = oracle_curves.main_body(connection, kind, case.get('grid_step', 1.0))
                # the walker's own union-find must confirm the degenerate situation
                confirmed = {
                    'refusal:no-intervals': not ids,
                    'refusal:no-level-crossed': not comps,
                    'main-body-single-interval': oracle_curves.single_interval_body_possible(
                        connection, kind, case.get('grid_step', 1.0)),
                }.get(key, True)
                if not confirmed:
                    key = 'raises-without-cause:' + key
                    if prop == 'C08' and comps and len(comps[0][1]) >= 2 and (len(comps) == 1 or comps[1][0] < comps[0][0]):
                        # spowtd declares that there is nothing to assemble although the walker's own
                        # union-find finds a unique main body of two or more intervals: they are left out
                        rec.violation(kind + '-main-body-exists-but-no-curve-is-assembled',
                                      {'exception': desc, 'components_levels_sizes': [(nl, len(m)) for nl, m in comps[:5]]}, case, 'dataset')
                        continue
                if key.startswith('refusal:'):
                    rec.hit(kind + ':' + key)
                elif key == 'main-body-single-interval':
                    rec.hit(kind + ':main-body-single-interval (known finding of C08)')
                    if prop == 'C08':
                        comps, _ = oracle_curves.main_body(connection, kind, case.get('grid_step', 1.0))
                        rec.violation(key, {'kind': kind, 'exception': desc, 'components_levels_sizes': [(nl, len(m)) for nl, m in comps[:5]]}, case, 'dataset')
                else:
                    rec.hit(kind + ':unexpected-exception')
                    rec.inconclusive_because('{} raised {} -- {} cannot be observed on that dataset'.format(kind, key, prop))
                continue
            rec.hit(kind + '-curves-assembled')
            if via == 'cli':
                import sqlite3
                connection.close()
                connection = sqlite3.connect(db)
            findings, stats = oracle_curves.walk_curve(connection, kind, None, ctx.rng('perturb', index))
            out[kind] = (findings, stats)
            if stats.get('intervals-in-curve', 0) >= 50:
                rec.hit('curves-with-50+-intervals')
            for name, n in stats.items():
                if isinstance(n, int) and name not in ('n_levels', 'c05-nontrivial'):
                    rec.hit(kind + ':' + name, n)
            if 'max-relative-residual' in stats:
                rec.note_max(kind + ': max relative residual sum', stats['max-relative-residual'])
            for p, k, w in findings:
                if p == prop:
                    rec.violation(k, w, case, 'dataset')
            if nontrivial is not None and nontrivial(kind, stats):
                rec.mark_nontrivial(core.digest((kind, case['rain'][:50], case['z'][:50], case.get('grid_step'), len(case['rain']))))
                rec.sample({'generator': case.get('kind'), 'curve': kind, 'step_s': case['step'], 'grid_step_mm': case.get('grid_step'),
                            'n_steps': len(case['rain']), 'intervals_in_curve': stats.get('intervals-in-curve'),
                            'levels': stats.get('n_levels'), 'components': stats.get('components')})
        if with_reference and out:
            connection = reassemble_with_reference(ctx, prop, case, connection, db, via, [k for k in kinds if k in out], index)
        elif session and len(out) == len(kinds):
            connection = repeat_steps(ctx, prop, case, connection, db, via, kinds, index)
    finally:
        connection.close()
    return out
