"""Building input files / datasets and driving the real spowtd code"""

import datetime
import io
import os
import sqlite3

FMT = '%Y-%m-%d %H:%M:%S'
_CLI_CALLS = [0]
RELATIVE_CALLS = [0]  # commands run with relative file names from the data directory
REPO_PREFIXES = (os.environ.get('SPOWTD_REPO', '/repo'),)
EPOCH0 = datetime.datetime(1970, 1, 1)


def parse_t0(t0):
    return datetime.datetime.strptime(t0, FMT)


def ts(t0, seconds):
    """Local naive timestamp text for t0 + seconds"""
    return (t0 + datetime.timedelta(seconds=seconds)).strftime(FMT)


def csv_text(t0, rows, header='Datetime,value'):
    """rows: iterable of (seconds offset, value)"""
    out = [header]
    for sec, value in rows:
        out.append('{},{!r}'.format(ts(t0, sec), float(value)))
    return '\n'.join(out) + '\n'


def case_texts(case):
    """CSV texts (precipitation, evapotranspiration, water level) of a series
    case.  case: step, t0, rain[n], et (list n+1 or scalar), z [[sec, value]]"""
    t0 = parse_t0(case.get('t0', '2021-03-01 00:00:00'))
    step = case['step']
    n = len(case['rain'])
    et = case.get('et', 0.1)
    if not isinstance(et, (list, tuple)):
        et = [et] * (n + 1)
    p = csv_text(t0, ((i * step, r) for i, r in enumerate(case['rain'])),
                 'Datetime,precipitation_mm_h')
    e = csv_text(t0, ((i * step, v) for i, v in enumerate(et)),
                 'Datetime,evapotranspiration_mm_h')
    z = csv_text(t0, ((sec, v) for sec, v in case['z']), 'Datetime,water_level_mm')
    return p, e, z


def load_texts(connection, p, e, z, tz='UTC'):
    import spowtd.load as load_mod

    load_mod.load_data(
        connection=connection,
        precipitation_data_file=io.StringIO(p),
        evapotranspiration_data_file=io.StringIO(e),
        water_level_data_file=io.StringIO(z),
        time_zone_name=tz,
    )


def load_case(case, path=':memory:'):
    """Load a series case with the real load_data; returns the connection"""
    p, e, z = case_texts(case)
    connection = sqlite3.connect(path)
    load_texts(connection, p, e, z, case.get('tz', 'UTC'))
    return connection


def write_case_files(case, directory, stem='in'):
    p, e, z = case_texts(case)
    paths = []
    for name, text in (('p', p), ('e', e), ('z', z)):
        path = os.path.join(directory, '{}_{}.txt'.format(stem, name))
        with open(path, 'w') as f:
            f.write(text)
        paths.append(path)
    return paths


def cli(argv, stdout=None):
    """Run `spowtd <argv>` in-process through the real entry point.

    Returns (status, exception): status is main()'s return value or the
    SystemExit code; exception is the exception that escaped, if any.
    """
    import contextlib
    import spowtd.user_interface as ui

    out = stdout if stdout is not None else io.StringIO()
    err = io.StringIO()
    argv = [str(a) for a in argv]
    # every third command is typed the way a user in the data directory would: relative file
    # names, with that directory as the current one
    _CLI_CALLS[0] += 1
    cwd = None
    absolute = [a for a in argv if a.startswith('/') and os.path.isdir(os.path.dirname(a))]
    if _CLI_CALLS[0] % 3 == 0 and absolute:
        base = os.path.dirname(absolute[0])
        if not base.startswith(REPO_PREFIXES):
            cwd = os.getcwd()
            argv = [os.path.relpath(a, base) if a.startswith(base + '/') else a for a in argv]
            os.chdir(base)
            RELATIVE_CALLS[0] += 1
    try:
        with contextlib.redirect_stdout(out), contextlib.redirect_stderr(err):
            status = ui.main(argv)
        return status, None
    except SystemExit as exc:
        return (exc.code if exc.code is not None else 0), None
    except Exception as exc:  # pylint: disable=broad-except
        return 1, exc
    finally:
        if cwd is not None:
            os.chdir(cwd)


def copy_db(source, path=':memory:'):
    """Copy a connection's database with the SQLite backup API"""
    target = sqlite3.connect(path)
    source.backup(target)
    return target


def dump(connection_or_path):
    """Logical dump: sorted rows of every table (floats by repr)"""
    close = False
    if isinstance(connection_or_path, str):
        connection = sqlite3.connect(connection_or_path)
        close = True
    else:
        connection = connection_or_path
    out = {}
    tables = [
        r[0]
        for r in connection.execute(
            "SELECT name FROM sqlite_master WHERE type='table' ORDER BY 1"
        )
    ]
    for table in tables:
        rows = connection.execute('SELECT * FROM {}'.format(table)).fetchall()
        out[table] = sorted((tuple(repr(v) for v in row) for row in rows))
    if close:
        connection.close()
    return out


def local_epoch(t0_text, tz_name='UTC'):
    """Epoch of a local naive timestamp text in a fixed-offset zone / UTC,
    computed without the code under test (own arithmetic + pytz forward map)."""
    import pytz

    naive = parse_t0(t0_text)
    guess = int((naive - EPOCH0).total_seconds())
    tz = pytz.timezone(tz_name)
    # fixed-point iteration on the forward (UTC -> local) map
    for _ in range(4):
        off = datetime.datetime.fromtimestamp(guess, pytz.utc).astimezone(tz).utcoffset()
        new = int((naive - EPOCH0).total_seconds() - off.total_seconds())
        if new == guess:
            break
        guess = new
    return guess


def num_arg(value, variant=0):
    """Text of a numeric command-line argument, in one of the forms a user may
    type: shortest repr, integer when whole, exponent notation, padded zeros"""
    v = float(value)
    variant = variant % 4
    if variant == 1 and v.is_integer() and abs(v) < 1e15:
        return str(int(v))
    if variant == 2:
        return '{:.17e}'.format(v)
    if variant == 3 and v == float('{:.6f}'.format(v)):
        return '{:.6f}'.format(v)
    return repr(v)


def num_form(value, variant=0):
    """The same number in one of the forms a caller of the Python functions may use:
    float, int when whole, numpy float64"""
    import numpy as np

    v = float(value)
    variant = variant % 3
    if variant == 1 and v.is_integer() and abs(v) < 1e15:
        return int(v)
    if variant == 2:
        return np.float64(v)
    return v


class library_logging:
    """What a caller of the Python functions may have done before calling them: logging
    configured at a given level (DEBUG shows every diagnostic message spowtd can emit).
    Messages go to a sink; the previous configuration is restored afterwards."""

    def __init__(self, level_name='DEBUG'):
        import logging

        self.logging = logging
        self.level = getattr(logging, level_name)

    def __enter__(self):
        root = self.logging.root
        self.saved = (root.level, root.handlers[:])
        for handler in root.handlers[:]:
            root.removeHandler(handler)
        self.sink = self.logging.StreamHandler(io.StringIO())
        root.addHandler(self.sink)
        root.setLevel(self.level)
        return self

    def __exit__(self, *exc_info):
        root = self.logging.root
        root.removeHandler(self.sink)
        level, handlers = self.saved
        for handler in handlers:
            root.addHandler(handler)
        root.setLevel(level)
        return False
