"""`spowtd plot specific-yield|transmissivity ... --dump FILE`: the command-line
surface of the hydraulic functions (YAML parameter file in, text table out)."""

import gc
import os

from . import core, curves_common, data

_N = [0]


def run_dump(ctx, what, params, lo_cm, hi_cm, n):
    """Returns (rows [(level_cm, value)], error description or None)"""
    _N[0] += 1
    pfile = curves_common.write_yaml(os.path.join(ctx.workdir, 'dump{}.yml'.format(_N[0])), params)
    out = os.path.join(ctx.workdir, 'dump{}.txt'.format(_N[0]))
    # negative numbers after positional arguments: argparse needs the '--' separator
    argv = ['plot', what, '-n', str(n), '-d', out, '--', pfile, data.num_arg(lo_cm, _N[0]), data.num_arg(hi_cm, _N[0] + 1)]
    status, exc = data.cli(argv)
    gc.collect()
    if exc is not None or status != 0:
        return None, (core.describe_exception(exc) if exc else {'status': status, 'argv': argv})
    with open(out) as f:
        lines = f.read().splitlines()
    rows = []
    for ln in lines[1:]:
        a, b = ln.split(',')
        rows.append((float(a), float(b)))
    os.remove(out)
    os.remove(pfile)
    return rows, None
