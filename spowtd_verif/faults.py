"""L3 -- sqlite3 statement trace and fault / kill injection.

`install()` replaces sqlite3.connect by a shim that injects Connection /
Cursor subclasses.  Every execute, executemany (and every parameter row it
consumes), executescript and commit is counted and logged; at a chosen event
index the layer raises sqlite3.OperationalError before or after the
statement, stops an executemany after a chosen number of rows, or SIGKILLs
the process (used inside a forked child).
"""

import os
import signal
import sqlite3

_ORIG_CONNECT = sqlite3.connect


class Injected(sqlite3.OperationalError):
    pass


STATE = {'n': 0, 'at': None, 'mode': None, 'row': None, 'log': [], 'rows': {}, 'fired': False, 'enabled': False}


def reset(at=None, mode=None, row=None):
    STATE.update(n=0, at=at, mode=mode, row=row, log=[], rows={}, fired=False, enabled=True)


def disable():
    STATE['enabled'] = False


def _kill():
    os.kill(os.getpid(), signal.SIGKILL)


def _before(kind, sql, connection=None):
    if not STATE['enabled']:
        return False
    STATE['n'] += 1
    STATE['log'].append((kind, ' '.join(str(sql).split())[:60]))
    if STATE['at'] is not None and STATE['n'] == STATE['at'] and STATE['row'] is None:
        if STATE['mode'] == 'interrupt' and connection is not None:
            # SQLite itself aborts the statement part-way: the progress
            # handler returns non-zero after a few virtual-machine steps
            def handler():
                STATE['fired'] = True
                return 1
            connection.set_progress_handler(handler, STATE.get('vm_steps', 20))
            return False
        if STATE['mode'] == 'exc-before':
            STATE['fired'] = True
            raise Injected('injected fault before statement {}'.format(STATE['n']))
        if STATE['mode'] == 'kill-before':
            _kill()
        return True
    return False


def _after(armed):
    if armed:
        if STATE['mode'] == 'exc-after':
            STATE['fired'] = True
            raise Injected('injected fault after statement {}'.format(STATE['n']))
        if STATE['mode'] == 'kill-after':
            _kill()


def _rows(seq, index):
    """Count the parameter rows of an executemany; fail after STATE['row'] rows"""
    count = 0
    armed = STATE['enabled'] and STATE['at'] == index and STATE['row'] is not None
    for item in seq:
        if armed and count == STATE['row']:
            STATE['fired'] = True
            if STATE['mode'] == 'kill-row':
                _kill()
            raise Injected('injected fault at row {} of statement {}'.format(count, index))
        count += 1
        if STATE['enabled']:
            STATE['rows'][index] = count
        yield item


class Cursor(sqlite3.Cursor):
    def execute(self, sql, *args):
        armed = _before('execute', sql, self.connection)
        result = super().execute(sql, *args)
        _after(armed)
        return result

    def executemany(self, sql, seq):
        armed = _before('executemany', sql, self.connection)
        result = super().executemany(sql, _rows(seq, STATE['n']))
        _after(armed)
        return result

    def executescript(self, sql):
        armed = _before('executescript', sql)
        result = super().executescript(sql)
        _after(armed)
        return result


class Connection(sqlite3.Connection):
    def cursor(self, factory=Cursor):
        return super().cursor(factory)

    def execute(self, sql, *args):
        armed = _before('connection.execute', sql)
        result = super().execute(sql, *args)
        _after(armed)
        return result

    def executemany(self, sql, seq):
        armed = _before('connection.executemany', sql)
        result = super().executemany(sql, _rows(seq, STATE['n']))
        _after(armed)
        return result

    def commit(self):
        armed = _before('commit', 'COMMIT')
        result = super().commit()
        _after(armed)
        return result

    def __exit__(self, exc_type, exc_value, traceback):
        # same semantics as sqlite3.Connection.__exit__ (commit on success,
        # rollback on exception), but the commit goes through the traced
        # method so that it is a fault point too
        if exc_type is None:
            self.commit()
        else:
            self.rollback()
        return False


def _connect(*args, **kwargs):
    kwargs.setdefault('factory', Connection)
    return _ORIG_CONNECT(*args, **kwargs)


def install():
    sqlite3.connect = _connect


def uninstall():
    sqlite3.connect = _ORIG_CONNECT


def plain_connect(path):
    return _ORIG_CONNECT(path)
