"""G-params: hydraulic parameter sets and level grids"""


def shuffled_keys(rng, params):
    """The same mapping with its keys in another order (a parameter file may list them in any)"""
    keys = list(params)
    rng.shuffle(keys)
    return {k: params[k] for k in keys}


def spline_sy(rng, positive=True):
    n = rng.randint(4, 9)
    z0 = rng.choice([-1000.0, -291.7, -50.0, 0.0, 120.5, 24500.0])
    knots = [z0]
    for _ in range(n - 1):
        knots.append(knots[-1] + rng.choice([1.0, 5.0, rng.uniform(1, 500), rng.uniform(10, 120), 0.2]))
    mode = rng.random()
    if mode < 0.2:
        vals = [rng.choice([0.1, 0.25, 0.5])] * n  # constant specific yield
    elif mode < 0.6:
        vals = sorted(rng.uniform(0.02, 1.0) for _ in range(n))
    else:
        vals = [rng.uniform(0.0 if not positive else 0.02, 1.0) for _ in range(n)]
    if mode >= 0.2 and rng.random() < 0.25:
        # a uniform layer inside a varying profile: two neighbouring knots with exactly the same
        # value (a deep layer of 0.1, open water of 1.0) -- the interpolating cubic still bends there
        j = rng.randrange(n - 1)
        v = rng.choice([vals[j], 0.1, 1.0])
        vals[j] = vals[j + 1] = v
    return shuffled_keys(rng, {'type': 'spline', 'zeta_knots_mm': knots, 'sy_knots': vals})


def spline_T(rng, z_lo=None):
    n = rng.randint(2, 7)
    z0 = z_lo if z_lo is not None else rng.choice([-1000.0, -291.7, -50.0, 0.0, 24500.0])
    knots = [z0]
    for _ in range(n - 1):
        # also a sharp layer boundary written as two knots a fraction of a mm apart
        knots.append(knots[-1] + rng.choice([1.0, rng.uniform(1, 1000), rng.uniform(20, 200), 0.2, 0.005]))
    mode = rng.random()
    if mode < 0.3:
        # narrow conductivity spike
        K = [10 ** rng.uniform(-6, -2) for _ in range(n)]
        K[rng.randrange(n)] = 10 ** rng.uniform(2, 5)
    elif mode < 0.7:
        K = sorted(10 ** rng.uniform(-6, 5) for _ in range(n))
    else:
        K = [10 ** rng.uniform(-6, 5) for _ in range(n)]
    if rng.random() < 0.25:
        # a uniform layer: two (or all) neighbouring knots with exactly the same conductivity
        j = rng.randrange(n - 1)
        K[j + 1] = K[j]
        if rng.random() < 0.2:
            K = [K[0]] * n
    return shuffled_keys(rng, {'type': 'spline', 'zeta_knots_mm': knots, 'K_knots_km_d': K,
                               'minimum_transmissivity_m2_d': 10 ** rng.uniform(-3, 2)})


PUBLISHED_SY = {'type': 'peatclsm', 'sd': 0.162, 'theta_s': 0.88, 'b': 7.4, 'psi_s': -0.024}
PUBLISHED_T = {'type': 'peatclsm', 'Ksmacz0': 7.3, 'alpha': 3, 'zeta_max_cm': 1.0}


def peatclsm_sy(rng):
    mode = rng.random()
    if mode > 0.85:
        # integer-valued parameters, as `theta_s: 1` / `b: 7` load from YAML
        return shuffled_keys(rng, {'type': 'peatclsm', 'sd': rng.choice([1, 2, 0.162]), 'theta_s': rng.choice([1, 1, 0.88]),
                                   'b': rng.choice([1, 7, 20, 7.4]), 'psi_s': rng.choice([-1, -0.024])})
    if mode < 0.15:
        # corners of the PEST bounds
        return shuffled_keys(rng, {'type': 'peatclsm', 'sd': rng.choice([1e-3, 2.0]), 'theta_s': rng.choice([0.01, 1.0]),
                                   'b': rng.choice([0.01, 20.0]), 'psi_s': rng.choice([-1.0, -0.01])})
    return shuffled_keys(rng, {'type': 'peatclsm', 'sd': rng.uniform(0.01, 2.0), 'theta_s': rng.uniform(0.01, 1.0),
                               'b': rng.uniform(0.05, 20.0), 'psi_s': -rng.uniform(0.01, 1.0)})


def peatclsm_T(rng):
    return shuffled_keys(rng, {'type': 'peatclsm', 'Ksmacz0': rng.choice([10 ** rng.uniform(-4, 5), 7, 1]), 'alpha': rng.choice([rng.uniform(1.01, 20.0), 3, 2, 1.5]),
                               'zeta_max_cm': rng.choice([1.0, 0.0, 5.0, 1, 0, rng.uniform(-10, 30)])})


def level_grid(rng, lo, hi, n=None, beyond=True):
    """Increasing grid of levels inside / straddling / beyond [lo, hi]"""
    n = n or rng.randint(2, 40)
    span = hi - lo
    mode = rng.choice(['inside', 'straddle-low', 'straddle-high', 'beyond-low', 'beyond-high', 'cover']) if beyond else 'inside'
    if mode == 'inside':
        a, b = lo + rng.uniform(0, 0.4) * span, hi - rng.uniform(0, 0.4) * span
    elif mode == 'straddle-low':
        a, b = lo - rng.uniform(0.1, 1) * span, lo + rng.uniform(0.1, 0.9) * span
    elif mode == 'straddle-high':
        a, b = hi - rng.uniform(0.1, 0.9) * span, hi + rng.uniform(0.1, 1) * span
    elif mode == 'beyond-low':
        a, b = lo - rng.uniform(1, 2) * span, lo - rng.uniform(0.01, 0.9) * span
    elif mode == 'beyond-high':
        a, b = hi + rng.uniform(0.01, 0.9) * span, hi + rng.uniform(1, 2) * span
    else:
        a, b = lo - rng.uniform(0.1, 1) * span, hi + rng.uniform(0.1, 1) * span
    if rng.random() < 0.5:
        grid = [a + (b - a) * i / (n - 1) for i in range(n)]
    else:
        grid = sorted(rng.uniform(a, b) for _ in range(n))
        grid = [g for i, g in enumerate(grid) if i == 0 or g > grid[i - 1]]
        if len(grid) < 2:
            grid = [a, b]
    return grid, mode
