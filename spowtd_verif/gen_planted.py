"""G-planted: records generated from a ground truth.

Truth: a recession curve R piecewise linear on the sampling lattice (R[k] is
the level k steps after the top of the curve; slopes are dyadic mm/step) and a
constant specific yield Sy.  Events are storms of 1-4 heavy steps plus one
light tail step whose total rise lands exactly on a lattice level, followed by
dry stretches that follow R.  The generator keeps the level inside a band so
that recessions overlap, and can plant a second, disjoint band.

Case dict (JSON-able): the series case of gen_series plus
  truth: {R: [...], sy: float, band: [lo, hi]}  (list of truths if 2 bands)
  grid_step: water-level grid step (mm)
"""

import math


def _planted_part(rng, step, n_events, sy, sthr, jthr, band, slopes):
    step_h = step / 3600.0
    R = [band[1] + 20.0]
    while R[-1] > band[0] - 50:
        R.append(R[-1] - rng.choice(slopes))
    K = len(R) - 1
    rain = []
    zeta = []
    k = rng.randint(K // 3, 2 * K // 3)
    z = R[k]
    for _ in range(rng.randint(0, 3)):
        rain.append(0.0)
        zeta.append(z)
        k += 1
        z = R[k]
    min_rise = max(sthr * step_h / sy, jthr * step_h) * 1.25
    n_done = 0
    for _ in range(n_events):
        m = rng.randint(1, 4)
        tail_rain = rng.choice([0.25, 0.5, 1.0])
        tail_rain = min(tail_rain, sthr / 2)
        tail_rise = tail_rain * step_h / sy
        if not (tail_rise < jthr * step_h * 0.9):
            tail_rain = jthr * sy * 0.5
            tail_rise = tail_rain * step_h / sy
        need = m * min_rise * rng.uniform(1.0, 2.0) + tail_rise
        k2 = k
        while k2 > 0 and R[k2] - z < need:
            k2 -= 1
        if R[k2] - z < need:
            break
        target = R[k2]
        heavy = target - tail_rise - z
        w = [rng.uniform(1, 2) for _ in range(m)]
        W = sum(w)
        ok = True
        steps = []
        zz = z
        for i in range(m):
            dz = heavy * w[i] / W
            if i == m - 1:
                dz = (target - tail_rise) - zz
            r = dz * sy / step_h
            if not (r > sthr * 1.01 and dz > jthr * step_h * 1.01):
                ok = False
                break
            steps.append((r, zz))
            zz = zz + dz
        if not ok:
            break
        for r, z_at in steps:
            rain.append(r)
            zeta.append(z_at)
        rain.append(tail_rain)
        zeta.append(zz)
        z = target
        k = k2
        n_done += 1
        L = rng.randint(6, 60)
        for _ in range(L):
            if k + 1 > K:
                break
            rain.append(0.0)
            zeta.append(z)
            k += 1
            z = R[k]
    rain.append(0.0)
    zeta.append(z)
    return rain, zeta, R, n_done


def gen(rng, min_events=3, **kwargs):
    """A planted case with at least min_events storms (retries the draw)"""
    for _ in range(200):
        case = gen_once(rng, **kwargs)
        if case['n_events'] >= min_events:
            return case
    raise RuntimeError('planted generator could not produce enough events')


def gen_once(rng, two_bands=False, gaps=None, step=None, grid_step=None, n_events=None, et_mode=None, top=None):
    # also steps whose length in hours does not convert back to whole seconds by truncation
    # (3900, 7380, 230), a minute and a day
    step = step or rng.choice([900, 1200, 1800, 3600, 900, 1200, 1800, 3600, 3900, 7380, 230, 60, 86400])
    sy = rng.choice([0.1, 0.25, 0.2, 0.5, 0.33])
    sthr = rng.choice([2.0, 4.0, 8.0])
    jthr = rng.choice([4.0, 5.0, 8.0])
    grid_step = grid_step or rng.choice([0.1, 0.2, 0.25, 0.3, 0.5, 1.0, 2.0, 2.5])
    slopes = rng.choice([[0.25, 0.5, 0.5, 1.0, 1.0, 2.0, 4.0], [0.5, 1.0], [0.125, 0.25, 3.0], [1.0]])
    n_events = n_events or rng.randint(4, 25)
    drawn_top = rng.choice([-50.0, -20.0, 100.0, 2400.0, -1000.0, 40.0])
    top = drawn_top if top is None else top
    depth = rng.choice([150.0, 350.0, 350.0, 600.0])
    band = (top - depth, top)
    rain, zeta, R, n_done = _planted_part(rng, step, n_events, sy, sthr, jthr, band, slopes)
    truths = [{'R': R, 'sy': sy, 'band': list(band)}]
    drop = set()
    if two_bands:
        # a second, disjoint band far below; separated by a gap in the record
        band2 = (band[0] - 2000.0 - depth / 2, band[0] - 2000.0)
        rain2, zeta2, R2, n2 = _planted_part(rng, step, rng.randint(2, 6), sy, sthr, jthr, band2, slopes)
        g = rng.randint(2, 4)
        n1 = len(rain)
        rain = rain + [0.0] * g + rain2
        zeta = zeta + [None] * g + zeta2
        drop |= set(range(n1, n1 + g))
        truths.append({'R': R2, 'sy': sy, 'band': list(band2)})
        n_done += n2
    n = len(rain)
    if gaps is None:
        gaps = rng.choice([0, 0, 1, 2])
    for _ in range(gaps):
        # gaps only inside dry spells: a gap next to a storm would hide part
        # of the storm's rise, which contradicts the planted truth
        for _attempt in range(20):
            if n <= 12:
                break
            i = rng.randint(3, n - 5)
            g = rng.randint(1, 3)
            if all(rain[j] == 0.0 for j in range(max(0, i - 2), min(n, i + g + 2))) and not any(
                    zeta[j] is None for j in range(max(0, i - 2), min(n, i + g + 2))):
                drop |= set(range(i, i + g))
                break
    et_mode = et_mode or rng.choice(['const', 'weekly', 'diurnal', 'random', 'condensation'])
    if et_mode == 'const':
        et = [0.125] * (n + 1)
    elif et_mode == 'weekly':
        et = [0.1 + 0.05 * (i % 7) for i in range(n + 1)]
    elif et_mode == 'diurnal':
        per = max(2, int(round(86400 / step)))
        et = [max(0.0, 0.3 * math.sin(2 * math.pi * i / per)) for i in range(n + 1)]
    elif et_mode == 'condensation':
        # slightly negative at night (dew, as flux-tower and Penman products report), positive mean
        per = max(2, int(round(86400 / step)))
        et = [0.35 * math.sin(2 * math.pi * i / per) if math.sin(2 * math.pi * i / per) > 0 else -0.03 for i in range(n + 1)]
    else:
        et = [round(rng.uniform(0.0, 0.6), 4) for _ in range(n + 1)]
    z = [[i * step, v] for i, v in enumerate(zeta) if i not in drop and v is not None]
    return {
        'kind': 'planted',
        'step': step,
        't0': rng.choice(['2020-01-01 00:00:00', '2013-07-07 06:00:00', '1999-12-31 12:00:00', '2031-05-05 00:00:00']),
        'tz': 'UTC',
        'rain': rain,
        'et': et,
        'z': z,
        'sthr': sthr,
        'jthr': jthr,
        'grid_step': grid_step,
        'truth': truths,
        'n_events': n_done,
        'dropped': sorted(drop),
    }


def with_fine_logger(case, rng):
    """The same record logged at half the rainfall step (mid-step readings on the straight line
    between their neighbours, so nothing changes at the grid instants), with one to three readings
    lost exactly where the level bends: at a grid instant that is a local peak.  The hole is no
    longer than one rainfall step but contains a grid instant: a gap of the source record.
    Returns (case, number of readings dropped)"""
    step = case['step']
    if step % 2:
        return case, 0
    zmap = {t: v for t, v in case['z']}
    fine = []
    for t, v in case['z']:
        fine.append([t, v])
        if t + step in zmap:
            fine.append([t + step // 2, 0.5 * (v + zmap[t + step])])
    peaks = [t for t in zmap if t - step in zmap and t + step in zmap and zmap[t] > zmap[t - step] and zmap[t] > zmap[t + step]]
    if not peaks:
        return case, 0
    drop = set(rng.sample(peaks, min(len(peaks), rng.randint(1, 3))))
    fine = [[t, v] for t, v in fine if t not in drop]
    return dict(case, z=fine, fine_logger_dropped=sorted(drop)), len(drop)


def r_inverse(truth, step):
    """Function level -> time (s) on the truth curve (piecewise linear)"""
    R = truth['R']

    def f(z):
        # R is strictly decreasing
        lo, hi = 0, len(R) - 1
        if z >= R[0]:
            k = 0
        elif z <= R[-1]:
            k = len(R) - 2
        else:
            while hi - lo > 1:
                mid = (lo + hi) // 2
                if R[mid] >= z:
                    lo = mid
                else:
                    hi = mid
            k = lo
        frac = (R[k] - z) / (R[k] - R[k + 1])
        return (k + frac) * step

    return f


def gen_noisy(rng, grid_step=None, slow=None):
    """Noisy record with recessions of random slope and non-monotone wiggles
    (so that one interval crosses a level more than once) and storms whose
    rise only roughly follows the rain.  No ground truth."""
    step = rng.choice([1200, 1800, 3600])
    sthr, jthr = 4.0, 8.0
    n = rng.randint(60, 220)
    rain = []
    z = [rng.uniform(-100, -50)]
    i = 0
    wiggle = rng.random() < 0.5
    if slow is None:
        slow = False
    # slow: recessions of a few hundredths of a mm per step, so that whole
    # intervals stay inside one millimetre while crossing sub-mm grid levels
    rate = (0.004, 0.08) if slow else (0.05, 1.0)
    while i < n:
        if rng.random() < 0.08 and z[-1] < -40:
            m = rng.randint(1, 3)
            for _ in range(m):
                r = rng.uniform(5, 30)
                rain.append(r)
                z.append(z[-1] + max(r * step / 3600.0 / 0.2 * rng.uniform(0.8, 1.2), jthr * step / 3600.0 * 1.1))
                i += 1
            if rng.random() < 0.9:
                rain.append(0.3)
                z.append(z[-1] + 0.1)
                i += 1
        else:
            rain.append(0.0 if rng.random() < 0.95 else 0.2)
            d = -rng.uniform(*rate)
            if wiggle and rng.random() < 0.2:
                d = rng.uniform(0.0, 0.6 * rate[1])
            z.append(z[-1] + d)
            i += 1
    n = len(rain)
    z = z[:n]
    keep = list(range(n))
    for _ in range(rng.choice([0, 0, 1, 2])):
        k = rng.randint(5, n - 5)
        del keep[k:k + rng.randint(1, 3)]
    return {
        'kind': 'noisy',
        'step': step,
        't0': '2021-03-01 00:00:00',
        'tz': 'UTC',
        'rain': rain,
        'et': [round(rng.uniform(0.0, 0.5), 3) for _ in range(n + 1)],
        'z': [[k * step, z[k]] for k in keep],
        'sthr': sthr,
        'jthr': jthr,
        'grid_step': grid_step or (rng.choice([0.1, 0.05, 0.25, 0.2]) if slow else rng.choice([1.0, 0.5, 0.1, 0.3, 2.5, 5.0, 0.25])),
        'slow': bool(slow),
    }


def gen_slow(rng, grid_step=None):
    """Very slow recessions chopped by drizzle into many short interstorm
    intervals, each staying inside one millimetre while crossing several
    sub-millimetre grid levels; rare one-step storms keep the level in a band."""
    step = rng.choice([1200, 1800, 3600])
    sthr, jthr = 4.0, 8.0
    J = jthr * step / 3600.0
    n = rng.randint(260, 420)
    rain, z = [], [rng.uniform(-60, -50)]
    base = z[0]
    for i in range(n):
        r = rng.random()
        if z[-1] < base - 2.5 and r < 0.3:
            rain.append(rng.uniform(6, 20))
            z.append(z[-1] + J * rng.uniform(1.1, 1.6))
        elif r < 0.10:
            rain.append(rng.choice([0.1, 0.2, 0.5]))   # drizzle: ends the interstorm interval
            z.append(z[-1] - rng.uniform(0.0, 0.02))
        else:
            rain.append(0.0)
            z.append(z[-1] - rng.uniform(0.01, 0.09))
    z = z[:n]
    return {
        'kind': 'slow',
        'step': step,
        't0': '2021-03-01 00:00:00',
        'tz': 'UTC',
        'rain': rain,
        'et': 0.1,
        'z': [[k * step, z[k]] for k in range(n)],
        'sthr': sthr,
        'jthr': jthr,
        'grid_step': grid_step or rng.choice([0.1, 0.25, 0.2, 0.5]),
    }


def gen_repeating(rng, grid_step=None):
    """A record that keeps returning to exactly the same levels: every storm
    lifts the water table from B to A in m steps, every dry spell lowers it from
    A to B in k steps (all values dyadic, so they repeat bit for bit), while the
    rain totals differ from storm to storm.  Intervals with identical levels but
    different abscissae are what a cache keyed on levels alone would confuse."""
    step = rng.choice([1800, 3600, 900])
    sh = step / 3600.0
    sthr, jthr = 4.0, 8.0
    A = rng.choice([-64.0, -20.0, 16.0, 100.0])
    m = rng.choice([1, 2, 4])
    rise_per_step = rng.choice([8.0, 16.0, 4.0]) * max(1.0, sh)  # > jthr * sh
    while rise_per_step <= jthr * sh * 1.01:
        rise_per_step *= 2
    B = A - m * rise_per_step
    k = rng.choice([8, 16, 32])
    fall = (A - B) / k
    rain, z = [], []
    level = A
    for ev in range(rng.randint(4, 9)):
        for i in range(k):                      # dry spell A -> B
            rain.append(0.0)
            z.append(A - i * fall)
        for i in range(m):                      # storm B -> A, rain differs between events
            rain.append(sthr * rng.choice([1.5, 2.0, 3.0, 5.0, 1.25]))
            z.append(B + i * rise_per_step)
        rain.append(sthr / 4)                   # light tail, level already at A
        z.append(A)
    for i in range(k // 2):
        rain.append(0.0)
        z.append(A - i * fall)
    n = len(rain)
    return {
        'kind': 'repeating',
        'step': step,
        't0': '2021-03-01 00:00:00',
        'tz': 'UTC',
        'rain': rain,
        'et': 0.125,
        'z': [[i * step, z[i]] for i in range(n)],
        'sthr': sthr,
        'jthr': jthr,
        'grid_step': grid_step or rng.choice([1.0, 0.5, 2.0, 0.25]),
    }
