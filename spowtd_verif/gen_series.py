"""G-series: hostile rainfall / water-level records built from segment
templates, with forced features.

A case is a JSON-able dict:
  step (s), t0 (local text), tz, rain [n] (mm/h on step i), et (scalar or
  [n+1]), z [[seconds, mm], ...] (water-level samples; missing samples are
  gaps), sthr, jthr (thresholds, mm/h), dyadic (bool), feats {segment: count},
  force (the forced feature, if any).
"""

import math

FEATURES = [
    'begin_rain',          # record starts inside a storm
    'begin_rise',          # record starts inside a rising limb
    'end_rain',            # last step of the record is heavy rain in a matched storm
    'end_rise',            # record ends inside a rising limb
    'chain',               # staggered storms and rises s-j-s-j... (contention)
    'storm_two_rises',
    'rise_two_storms',
    'one_sample_stretch',  # a gap-free stretch with a single sample
    'three_stretches',
    'gap_in_storm',        # gap cuts a storm / rise
    'stretch_ends_in_storm',
    'no_rain',
    'all_rain',
    'tie_rain',
    'tie_jump',
    'mystery',
    'drizzle',
    'thresholds_tiny',     # everything above threshold
    'thresholds_huge',     # nothing above threshold
    'threshold_zero',      # a threshold of exactly 0 (any rain is a storm / any increase is a rise)
    'half_rate',           # water level sampled every second step
    'misaligned',          # water level on another step (2/3 of the rain step), interpolated by load
    'fine_offgrid_gap',    # water level at half the rain step with single off-grid readings missing
    'long',
    'very_long',           # thousands of steps (chunked writes, batch sizes, quadratic loops)
    'negative_rain',       # dry steps reported as slightly negative (gauge drift) or as a -9999 code
    'dst_fold_twins',      # two equal storms that carry the same wall-clock label in a machine zone falling back
    'epoch_zero',          # the record starts at 1970-01-01 00:00:00 UTC (epoch 0)
    'many_stretches',      # 10-14 gaps: data-interval labels reach two digits
    'displace_exhaust',    # a displaced storm with no candidate left
    'rise_many_storms',    # one rise overlapping 3-5 storms
    'storm_many_rises',    # one storm overlapping 3-5 rises
    'lead_storm_rise_many',
    None,
    None,
]

DYADIC_STEPS = [900, 1800, 3600, 7200, 900, 1800, 3600, 7200, 225, 86400, 129600, 172800]
OTHER_STEPS = [600, 1200, 600, 1200, 1, 60, 432000, 3900, 7380, 115]


def gen_dst_fold_twins(rng):
    """Two equal one-step storms, each with its rise, that start exactly one fold apart on either
    side of the instant at which a machine time zone falls back (America/New_York 2021-11-07
    06:00 UTC, one hour; Australia/Lord_Howe 2021-04-03 15:00 UTC, half an hour): rendered in
    that zone they carry the same wall-clock start and end.  The data are in UTC."""
    import datetime

    instant, fold, step = rng.choice([('2021-11-07 06:00:00', 3600, 1800), ('2021-04-03 15:00:00', 1800, 900),
                                      ('2021-11-07 06:00:00', 3600, 3600), ('2021-04-03 15:00:00', 1800, 1800)])
    sthr, jthr = 2.0, 2.0
    J = jthr * step / 3600.0
    lead = rng.randint(6, 14)
    a, b = lead, lead + fold // step
    n = b + rng.randint(6, 12)
    rain = [0.0] * n
    rain[1] = sthr / 4            # some rain early in the record
    rain[a] = rain[b] = sthr * 2
    dz = [-0.125 * J] * (n - 1)
    dz[a] = dz[b] = 2 * J
    z = [0.0]
    for d in dz:
        z.append(z[-1] + d)
    start = datetime.datetime.strptime(instant, '%Y-%m-%d %H:%M:%S') - datetime.timedelta(seconds=fold + a * step)
    return {'kind': 'series', 'step': step, 't0': start.strftime('%Y-%m-%d %H:%M:%S'), 'tz': 'UTC', 'rain': rain, 'et': 0.125,
            'z': [[i * step, v] for i, v in enumerate(z)], 'sthr': sthr, 'jthr': jthr, 'dyadic': True, 'feats': {}, 'force': 'dst_fold_twins'}


def gen(rng, force=None, dyadic=None, max_segments=10):
    if force == 'dst_fold_twins':
        return gen_dst_fold_twins(rng)
    if dyadic is None:
        dyadic = rng.random() < 0.6
    step = rng.choice(DYADIC_STEPS) if dyadic else rng.choice(OTHER_STEPS)
    if force in ('misaligned', 'fine_offgrid_gap') and step < 60:
        step = 600  # these features place readings at thirds / halves of the step
    sh = step / 3600.0
    if dyadic:
        sthr = rng.choice([0.125, 0.5, 2.0, 4.0, 8.0, 64.0])
        jthr = rng.choice([0.125, 0.5, 2.0, 5.0, 8.0, 64.0])
    else:
        sthr = rng.choice([0.5, 2.0, 4.0, 8.0, round(rng.uniform(0.2, 12), 3), 2.5, 3.5, 5.0, 7.0, 10.0])
        jthr = rng.choice([0.5, 2.0, 5.0, 8.0, round(rng.uniform(0.2, 12), 3), 2.5, 3.5, 7.0, 10.0])
    J = jthr * sh

    def q(v):
        return round(v * 64) / 64 if dyadic else v

    rain = []
    dz = []  # dz[i] = zeta[i+1] - zeta[i] on step i
    feats = {}

    def heavy():
        return sthr * rng.choice([1.5, 2, 3, 1 + 2.0 ** -20, 1.25])

    def big():
        return J * rng.choice([1.5, 2, 4, 1 + 2.0 ** -20, 1.25])

    def small():
        # includes the exact tie (not a jump)
        return rng.choice([-J / 8, -J / 2, 0.0, J / 2, J * (1 - 2.0 ** -20), J])

    def light():
        # includes the exact tie (not a storm) and drizzle
        return rng.choice([0.0, 0.0, sthr / 4, sthr, sthr / 64])

    def seg(kind):
        feats[kind] = feats.get(kind, 0) + 1
        if kind == 'dry':
            for _ in range(rng.randint(1, 8)):
                rain.append(0.0)
                dz.append(rng.choice([-J / 8, -J / 4, 0.0]))
        elif kind == 'drizzle':
            for _ in range(rng.randint(1, 4)):
                rain.append(light())
                dz.append(small())
        elif kind == 'storm':
            for _ in range(rng.randint(1, 4)):
                rain.append(heavy())
                dz.append(big())
        elif kind == 'storm_lag':  # rise lags by one step
            m = rng.randint(1, 3)
            rain.extend(heavy() for _ in range(m))
            dz.extend([small()] + [big() for _ in range(m - 1)])
            rain.append(light())
            dz.append(big())
        elif kind == 'storm_two_rises':
            a, g, b = rng.randint(1, 3), rng.randint(1, 2), rng.randint(1, 3)
            rain.extend(heavy() for _ in range(a + g + b))
            dz.extend([big() for _ in range(a)] + [small() for _ in range(g)] + [big() for _ in range(b)])
        elif kind == 'rise_two_storms':
            a, g, b = rng.randint(1, 3), rng.randint(1, 2), rng.randint(1, 3)
            rain.extend([heavy() for _ in range(a)] + [light() for _ in range(g)] + [heavy() for _ in range(b)])
            dz.extend(big() for _ in range(a + g + b))
        elif kind == 'rise_many_storms':
            # one continuous rise under 3-5 separate bursts (rain pauses or
            # drops below the threshold in between)
            k = rng.randint(3, 5)
            first_len = rng.randint(1, 4)
            for b in range(k):
                m = first_len if b == 0 else rng.randint(1, 2)
                rain.extend(heavy() for _ in range(m))
                dz.extend(big() for _ in range(m))
                if b < k - 1:
                    g = rng.randint(1, 2)
                    rain.extend(light() for _ in range(g))
                    dz.extend(big() for _ in range(g))
        elif kind == 'storm_many_rises':
            # one long storm under which the level rises in 3-5 separate limbs
            k = rng.randint(3, 5)
            for b in range(k):
                m = rng.randint(1, 2)
                rain.extend(heavy() for _ in range(m))
                dz.extend(big() for _ in range(m))
                if b < k - 1:
                    g = rng.randint(1, 2)
                    rain.extend(heavy() for _ in range(g))
                    dz.extend(small() for _ in range(g))
        elif kind == 'lead_storm_rise_many':
            # a storm that starts well before a rise which then spans 2 more bursts
            lead = rng.randint(2, 4)
            rain.extend(heavy() for _ in range(lead))
            dz.extend(small() for _ in range(lead - 1))
            dz.append(big())
            for b in range(rng.randint(2, 3)):
                g = rng.randint(1, 2)
                rain.extend(light() for _ in range(g))
                dz.extend(big() for _ in range(g))
                m = rng.randint(1, 2)
                rain.extend(heavy() for _ in range(m))
                dz.extend(big() for _ in range(m))
        elif kind == 'chain':
            n = rng.randint(2, 5)
            # staggered: storm k on steps [4k, 4k+3), rise k on steps [4k+2, 4k+5)
            ls, lr = rng.choice([(3, 3), (3, 3), (2, 3), (3, 2)])
            L = 4 * n + 2
            r = [light() for _ in range(L)]
            d = [small() for _ in range(L)]
            for k in range(n):
                for i in range(4 * k, 4 * k + ls):
                    r[i] = heavy()
                for i in range(4 * k + 2, min(L, 4 * k + 2 + lr)):
                    d[i] = big()
            rain.extend(r)
            dz.extend(d)
        elif kind == 'displace_exhaust':
            # storm A (long) overlaps only rise X; storm B (short) overlaps X
            # and nothing else; whichever proposes second is rejected or
            # displaces the first, which then has no candidate left
            a, b = rng.randint(2, 4), rng.randint(1, 2)
            g = rng.randint(1, 2)
            rain.extend([heavy() for _ in range(a)] + [light() for _ in range(g)] + [heavy() for _ in range(b)])
            dz.extend([small() for _ in range(a - 1)] + [big() for _ in range(1 + g + b)])
        elif kind == 'mystery':
            rain.extend([0.0, 0.0])
            dz.extend([big(), small()])
        elif kind == 'tie_rain':
            rain.append(sthr)
            dz.append(big())
        elif kind == 'tie_jump':
            rain.append(heavy())
            dz.append(J)
        else:
            raise ValueError(kind)

    kinds = ['dry', 'dry', 'drizzle', 'storm', 'storm_lag', 'storm_two_rises',
             'rise_two_storms', 'chain', 'mystery', 'tie_rain', 'tie_jump',
             'displace_exhaust', 'rise_many_storms', 'storm_many_rises',
             'lead_storm_rise_many']
    first = rng.choice(['storm', 'chain', 'dry', 'dry', 'storm_two_rises', 'drizzle'])
    last = rng.choice(['storm', 'dry', 'dry', 'storm_two_rises', 'rise_two_storms', 'drizzle'])
    nseg = rng.randint(1, max_segments)
    middle = None
    if force == 'begin_rain':
        first = rng.choice(['storm', 'storm_two_rises', 'chain'])
    elif force == 'begin_rise':
        first = rng.choice(['storm', 'rise_two_storms'])
    elif force in ('end_rain', 'end_rise'):
        last = rng.choice(['storm', 'rise_two_storms', 'storm_two_rises'])
    elif force in ('chain', 'storm_two_rises', 'rise_two_storms', 'tie_rain',
                   'tie_jump', 'mystery', 'drizzle', 'displace_exhaust',
                   'rise_many_storms', 'storm_many_rises', 'lead_storm_rise_many'):
        middle = force
    elif force in ('long', 'many_stretches'):
        nseg = rng.randint(40, 80)
    elif force == 'very_long':
        nseg = rng.randint(500, 1400)
    if force == 'no_rain':
        for _ in range(rng.randint(1, 4)):
            seg(rng.choice(['dry', 'mystery']))
        rain[:] = [0.0] * len(rain)
    elif force == 'all_rain':
        for _ in range(rng.randint(1, 4)):
            seg(rng.choice(['storm', 'storm_two_rises', 'tie_jump', 'storm_lag']))
        rain[:] = [r if r > sthr else heavy() for r in rain]
    else:
        seg(first)
        where = rng.randint(0, nseg - 1)
        for k in range(nseg):
            seg(middle if (middle and k == where) else rng.choice(kinds))
        seg(last)
    n = len(rain)
    z = [q(rng.uniform(-300, 0))]
    for d in dz:
        z.append(z[-1] + (q(d) if dyadic else d))
    if dyadic:
        rain = [q(r) for r in rain]
    if force == 'end_rain':
        # water level known up to the start of the last step: the last step's
        # rain is heavy and the storm has been matched through earlier steps
        pass
    # water level at the starts of steps 0 .. n-1 (the increment of the last
    # step is unobserved, as in a real record) -- or through n for 'end_rise'
    m = n
    keep = list(range(m))
    ngaps = rng.choice([0, 0, 0, 1, 2, 3])
    if force == 'three_stretches':
        ngaps = rng.randint(2, 4)
    if force == 'many_stretches':
        ngaps = rng.randint(10, 14)
    if force in ('gap_in_storm', 'stretch_ends_in_storm', 'one_sample_stretch'):
        ngaps = max(ngaps, 1)
    if force in ('half_rate',):
        ngaps = rng.choice([0, 1])
    for g in range(ngaps):
        if len(keep) > 4:
            if force in ('gap_in_storm', 'stretch_ends_in_storm') and g == 0:
                # put the gap right inside / after a heavy step
                hs = [i for i in keep[1:-1] if rain[i] > sthr]
                if hs:
                    i0 = rng.choice(hs)
                    i = keep.index(i0) + (1 if force == 'stretch_ends_in_storm' else 0)
                    i = min(max(i, 1), len(keep) - 2)
                else:
                    i = rng.randint(1, len(keep) - 2)
            else:
                i = rng.randint(1, len(keep) - 2)
            k = 1 if force == 'many_stretches' else rng.randint(1, 3)
            del keep[i:i + k]
    if force == 'one_sample_stretch' and len(keep) > 6:
        # isolate one sample: remove its neighbours
        i = rng.randint(2, len(keep) - 3)
        j = keep[i]
        keep = [x for x in keep if x == j or abs(x - j) > 1]
    if len(keep) < 2:
        keep = [0, 1][:m]
    zs = [[i * step, z[i]] for i in keep]
    if force == 'half_rate' and len(keep) > 6:
        # water level sampled every second step (interpolated by load)
        zs = [[i * step, z[i]] for i in keep if i % 2 == 0]
        if len(zs) < 2:
            zs = [[i * step, z[i]] for i in keep]
    if force == 'misaligned' and n >= 6:
        # water level sampled on its own clock (2/3 of the rainfall step, as the
        # 20-min / 30-min field data); values follow the piecewise-linear level
        zstep = step * 2 // 3
        zs = []
        k = 0
        while k * zstep <= (n - 1) * step:
            t = k * zstep
            i = min(t // step, n - 2)
            frac = (t - i * step) / step
            zs.append([t, z[i] + (z[i + 1] - z[i]) * frac])
            k += 1
        for _ in range(rng.choice([0, 1, 2])):
            if len(zs) > 8:
                i = rng.randint(2, len(zs) - 4)
                del zs[i:i + rng.randint(1, 3)]
    if force == 'fine_offgrid_gap' and n >= 6:
        # water level logged at half the rainfall step; a missing off-grid
        # reading is a gap of the source record with no grid instant inside:
        # the two neighbouring grid instants belong to different stretches
        half = step // 2
        zs = []
        for i in range(n - 1):
            zs.append([i * step, z[i]])
            zs.append([i * step + half, 0.5 * (z[i] + z[i + 1])])
        zs.append([(n - 1) * step, z[n - 1]])
        off = [j for j in range(1, len(zs) - 1) if zs[j][0] % step != 0]
        for j in sorted(rng.sample(off, min(len(off), rng.randint(1, 4))), reverse=True):
            del zs[j]
    if force == 'thresholds_tiny':
        sthr = jthr = 1e-12
    elif force == 'thresholds_huge':
        sthr = jthr = 1e12
    elif force == 'threshold_zero':
        if rng.random() < 0.5:
            sthr = 0.0
        else:
            jthr = 0.0
    if force == 'negative_rain':
        dry = [i for i, r in enumerate(rain) if r == 0.0]
        for i in rng.sample(dry, min(len(dry), rng.randint(1, 6))):
            rain[i] = rng.choice([-0.01, -0.2, -9999.0, -1e-9])
    t0 = '2021-03-01 00:00:00'
    if force == 'epoch_zero':
        t0 = '1970-01-01 00:00:00'
    elif rng.random() < 0.08:
        # beyond the range of 32-bit epochs (2038-01-19) and of unsigned ones (2106-02-07)
        t0 = rng.choice(['2041-03-01 00:00:00', '2038-01-18 12:00:00', '2106-02-06 18:00:00'])
    elif rng.random() < 0.3:
        # the record straddles an instant at which some machine time zone changes its offset (the
        # data are in UTC: nothing may happen there)
        import datetime
        instant = rng.choice(['2021-11-07 06:00:00', '2021-03-14 07:00:00', '2021-04-03 15:00:00', '2021-10-02 15:30:00'])
        start = datetime.datetime.strptime(instant, '%Y-%m-%d %H:%M:%S') - datetime.timedelta(seconds=(len(rain) // 2) * step + rng.choice([0, 0, step // 2]))
        if start.year > 1971:
            t0 = start.strftime('%Y-%m-%d %H:%M:%S')
    case = {
        'kind': 'series',
        'step': step,
        't0': t0,
        'tz': 'UTC',
        'rain': rain,
        'et': 0.125,
        'z': zs,
        'sthr': sthr,
        'jthr': jthr,
        'dyadic': bool(dyadic),
        'feats': feats,
        'force': force,
    }
    return case


def gen_indexed(rng, index):
    """Case number `index` of a schedule that forces every feature in turn"""
    force = FEATURES[index % len(FEATURES)]
    dyadic = None
    if force in ('tie_jump', 'tie_rain'):
        dyadic = (index // len(FEATURES)) % 3 != 2  # mostly decisive ties
    return gen(rng, force=force, dyadic=dyadic)


def is_exact(values, bits=10):
    scale = 2 ** bits
    return all(math.isfinite(v) and float(v * scale).is_integer() and abs(v) < 2 ** 20 for v in values)
