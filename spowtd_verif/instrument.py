"""Instrumentation layers.

L1  contracts on the real functions: `Contracts.wrap(module, name, post)`
    replaces a module attribute by a wrapper that calls the original and then
    evaluates a post-condition on (arguments as they were at entry, result).
    The wrapper never alters the result and re-raises the function's own
    exceptions.  Evaluations are counted per contract.
L3  sqlite3 statement trace / fault injection: see faults.py.
L5  mechanism reach: `Reach` records which source lines of chosen functions
    executed (sys.monitoring LINE events, each location disabled after its
    first hit, so the cost is nil).
"""

import copy
import inspect
import sys


class Contracts:
    def __init__(self):
        self._installed = []
        self.evaluations = {}
        self.sink = None  # callable(prop, key, witness)

    def report(self, prop, key, witness):
        if self.sink is not None:
            self.sink(prop, key, witness)

    def count(self, name, n=1):
        self.evaluations[name] = self.evaluations.get(name, 0) + n

    def wrap(self, module, name, post, snapshot=True, label=None):
        original = getattr(module, name)
        label = label or '{}.{}'.format(getattr(module, '__name__', module), name)
        contracts = self

        def wrapper(*args, **kwargs):
            if snapshot:
                try:
                    saved = copy.deepcopy((args, kwargs))
                except Exception:  # pylint: disable=broad-except
                    saved = (args, kwargs)
            else:
                saved = (args, kwargs)
            result = original(*args, **kwargs)
            contracts.count(label)
            replaced = post(contracts, saved[0], saved[1], result)
            return result if replaced is None else replaced

        wrapper.__wrapped__ = original
        wrapper.__name__ = getattr(original, '__name__', name)
        setattr(module, name, wrapper)
        self._installed.append((module, name, original))
        return original

    def uninstall(self):
        for module, name, original in reversed(self._installed):
            setattr(module, name, original)
        self._installed = []


class Reach:
    """Which lines of the given functions executed (evidence, not a verdict)"""

    def __init__(self, functions):
        self.functions = [inspect.unwrap(f) for f in functions]
        self.lines = {}
        self._tool = None
        self._codes = {}

    def __enter__(self):
        mon = getattr(sys, 'monitoring', None)
        if mon is None:
            return self
        for tool in (4, 3, 2, 1):
            try:
                mon.use_tool_id(tool, 'spowtd-verif-reach')
                self._tool = tool
                break
            except ValueError:
                continue
        if self._tool is None:
            return self

        def on_line(code, line):
            self.lines.setdefault(self._codes.get(code, code.co_name), set()).add(line)
            return mon.DISABLE

        mon.register_callback(self._tool, mon.events.LINE, on_line)
        for f in self.functions:
            code = getattr(f, '__code__', None)
            if code is None:
                continue
            self._codes[code] = '{}.{}'.format(f.__module__, f.__qualname__)
            mon.set_local_events(self._tool, code, mon.events.LINE)
        return self

    def __exit__(self, *exc):
        mon = getattr(sys, 'monitoring', None)
        if mon is None or self._tool is None:
            return False
        for f in self.functions:
            code = getattr(f, '__code__', None)
            if code is not None:
                mon.set_local_events(self._tool, code, 0)
        mon.register_callback(self._tool, mon.events.LINE, None)
        mon.free_tool_id(self._tool)
        self._tool = None
        return False

    def hit_lines_matching(self, function_label, text):
        """Number of reached lines of a function whose source contains text"""
        for f in self.functions:
            label = '{}.{}'.format(f.__module__, f.__qualname__)
            if label != function_label:
                continue
            try:
                src, start = inspect.getsourcelines(f)
            except OSError:
                return 0
            hit = self.lines.get(label, set())
            return sum(1 for i, ln in enumerate(src) if text in ln and (start + i) in hit)
        return 0
