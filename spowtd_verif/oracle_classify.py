"""Classification walker (C01-C04): recompute, from the raw stored series only,
what the classification tables must contain, and compare.

No spowtd import.  Reads: water_level_staging (gaps of the source record),
grid_time, water_level, rainfall_intensity, time_grid, thresholds; compares
with: storm, zeta_interval, zeta_interval_storm, grid_time_flags, view
storm_total_rain_depth.
"""

import bisect
import math

EPS = 2.0 ** -52


def runs(mask):
    out = []
    i = 0
    n = len(mask)
    while i < n:
        if mask[i]:
            j = i
            while j < n and mask[j]:
                j += 1
            out.append((i, j))
            i = j
        else:
            i += 1
    return out


def _exact(values, bits=10):
    scale = float(2 ** bits)
    for v in values:
        if not math.isfinite(v) or abs(v) >= 2 ** 20 or not (v * scale).is_integer():
            return False
    return True


def stretches(connection):
    """Gap-free stretches from the *source* record: list of lists of
    (epoch, zeta, rain) for grid instants that have a water level and a
    rainfall step, split wherever the source record has a gap or the grid
    sequence is interrupted."""
    (step_s,) = connection.execute('SELECT time_step_s FROM time_grid').fetchone()
    zt = [r[0] for r in connection.execute('SELECT epoch FROM water_level_staging ORDER BY epoch')]
    gaps_after = []  # zt[k+1] for each source gap k
    if len(zt) > 1:
        zmin = min(b - a for a, b in zip(zt, zt[1:]))
        gaps_after = [b for a, b in zip(zt, zt[1:]) if b - a > zmin]
    rows = connection.execute(
        """SELECT w.epoch, w.zeta_mm, r.rainfall_intensity_mm_h
           FROM water_level AS w JOIN rainfall_intensity AS r ON r.from_epoch = w.epoch
           ORDER BY w.epoch"""
    ).fetchall()
    out = []
    prev = None
    prev_sid = None
    for e, z, r in rows:
        sid = bisect.bisect_right(gaps_after, e)
        if prev is None or sid != prev_sid or e - prev != step_s:
            out.append([])
        out[-1].append((e, z, r))
        prev, prev_sid = e, sid
    return step_s, out


def own_deferred_acceptance(cands, sp, jp):
    """Storm-proposing deferred acceptance on candidate pairs (s, j) with
    preference scores sp[(s, j)], jp[(s, j)] (higher is better).  Returns
    (match j->s, n_rejections, n_displacements, n_exhausted)."""
    lists = {}
    for s, j in cands:
        lists.setdefault(s, []).append(j)
    for s in lists:
        lists[s].sort(key=lambda j, s=s: (-sp[(s, j)], j))
    free = sorted(lists)
    match = {}
    nrej = ndisp = nexh = 0
    while free:
        s = free.pop(0)
        if not lists[s]:
            continue
        j = lists[s].pop(0)
        if j not in match:
            match[j] = s
        elif jp[(s, j)] > jp[(match[j], j)]:
            old = match[j]
            match[j] = s
            ndisp += 1
            if lists[old]:
                free.append(old)
            else:
                nexh += 1
        else:
            nrej += 1
            if lists[s]:
                free.append(s)
            else:
                nexh += 1
    return match, nrej, ndisp, nexh


def walk(connection, sthr=None, jthr=None):
    """Returns (findings, stats).

    findings: list of (property, key, witness dict)
    stats: dict of counters / classes observed on this dataset
    """
    findings = []
    stats = {}

    def hit(name, n=1):
        stats[name] = stats.get(name, 0) + n

    thr = connection.execute(
        'SELECT storm_rain_threshold_mm_h, rising_jump_threshold_mm_h FROM thresholds'
    ).fetchall()
    if len(thr) != 1:
        findings.append(('C01', 'thresholds-not-recorded', {'rows': thr}))
        return findings, stats
    if sthr is not None and (thr[0][0] != sthr or thr[0][1] != jthr):
        findings.append(('C03', 'thresholds-differ-from-request', {'stored': thr[0], 'requested': [sthr, jthr]}))
    sthr, jthr = thr[0]
    if sthr == 0 or jthr == 0:
        hit('datasets-with-a-zero-threshold')
    step_s, strs = stretches(connection)
    step_h = step_s / 3600.0
    T = jthr * step_h
    all_z = [z for L in strs for _, z, _ in L]
    exact = _exact([T, step_h]) and _exact(all_z)
    hit('exact-arithmetic-datasets' if exact else 'inexact-arithmetic-datasets')
    band = 0.0 if exact else 8 * EPS * abs(T)

    exp_inter = set()
    exp_flags = {}
    ambiguous_epochs = set()  # samples whose jump flag is tie-ambiguous
    storms_all = {}  # start epoch -> (thru epoch, nsteps, index-in-stretch, stretch id)
    rises_all = {}
    cands = []
    n_ties_rain = n_ties_jump = 0
    sig_parts = []
    hit('stretches', len(strs))
    if len(strs) >= 3:
        hit('datasets-with-3+-stretches')
    if len(strs) >= 10:
        hit('datasets-with-10+-stretches')
    if strs and strs[0] and strs[0][0][0] == 0:
        hit('datasets-starting-at-epoch-zero')
    for sid, L in enumerate(strs):
        ep = [x[0] for x in L]
        z = [x[1] for x in L]
        r = [x[2] for x in L]
        n = len(L)
        if n == 1:
            hit('one-sample-stretches')
        raining = [x > 0 for x in r]
        heavy = [x > sthr for x in r]
        n_ties_rain += sum(1 for x in r if x == sthr)
        inc = [z[i + 1] - z[i] for i in range(n - 1)]
        jump_inc = [d > T for d in inc]
        amb = [abs(d - T) <= band and band > 0 for d in inc]
        n_ties_jump += sum(1 for d in inc if d == T)
        if any(amb):
            hit('tie-ambiguous-increments', sum(amb))
        jump = [False] + jump_inc
        sig_parts.append((''.join(str(int(a) + int(b)) for a, b in zip(raining, heavy)),
                          ''.join(str(int(b)) for b in jump_inc)))
        last = None
        inter = []
        for i in range(n):
            if i > 0 and amb[i - 1]:
                ambiguous_epochs.add(ep[i])
            if raining[i]:
                last = i
                ok = False
            else:
                ok = last is not None and not any(jump[k] for k in range(last + 1, i + 1))
            inter.append(ok)
            exp_flags[ep[i]] = (int(jump[i]), int((not raining[i]) and not ok), int(ok))
        for a, b in runs(inter):
            if b - a >= 2:
                exp_inter.add((ep[a], ep[b - 1]))
            else:
                hit('single-sample-interstorm-runs')
        if n and heavy[0]:
            hit('stretch-begins-in-heavy-rain')
        if n and heavy[-1]:
            hit('stretch-ends-in-heavy-rain')
        if jump_inc and jump_inc[0]:
            hit('stretch-begins-in-rise')
        if jump_inc and jump_inc[-1]:
            hit('stretch-ends-in-rise')
        st = runs(heavy)
        ri = runs(jump_inc)
        for a, b in st:
            storms_all[ep[a]] = (ep[b - 1] + step_s, b - a, a, sid)
            if b - a == 1:
                hit('storm-runs-of-length-one')
        for a, b in ri:
            rises_all[ep[a]] = (ep[b], b - a, a, sid)
            if b - a == 1:
                hit('rise-runs-of-length-one')
        for a, b in st:
            for c, d in ri:
                if max(a, c) < min(b, d):
                    cands.append((ep[a], ep[c]))
    hit('exact-tie-rain-values', n_ties_rain)
    hit('exact-tie-increments', n_ties_jump)
    hit('candidate-pairs', len(cands))
    hit('maximal-storm-runs', len(storms_all))
    hit('maximal-rise-runs', len(rises_all))
    if not any(any(x[2] > 0 for x in L) for L in strs):
        hit('datasets-without-rain')
    if strs and all(all(x[2] > sthr for x in L) for L in strs):
        hit('datasets-all-heavy-rain')

    # ---- C04: interstorm intervals and flags
    got_inter = set(
        connection.execute(
            "SELECT start_epoch, thru_epoch FROM zeta_interval WHERE interval_type='interstorm'"
        ).fetchall()
    )
    hit('interstorm-intervals', len(got_inter))
    got_flags = {
        e: (int(a), int(b), int(c))
        for e, a, b, c in connection.execute(
            'SELECT start_epoch, is_jump, is_mystery_jump, is_interstorm FROM grid_time_flags'
        )
    }
    hit('flag-rows', len(got_flags))
    if not ambiguous_epochs:
        if got_inter != exp_inter:
            findings.append((
                'C04', 'interstorm-intervals-differ',
                {'unexpected': sorted(got_inter - exp_inter)[:5], 'missing': sorted(exp_inter - got_inter)[:5]},
            ))
        if got_flags != exp_flags:
            diff = [
                (e, got_flags.get(e), exp_flags.get(e))
                for e in sorted(set(got_flags) | set(exp_flags))
                if got_flags.get(e) != exp_flags.get(e)
            ]
            findings.append(('C04', 'flags-differ', {'epoch_got_expected': diff[:5], 'n': len(diff)}))
        if any(f[1] and not f[0] for f in exp_flags.values()) and got_inter:
            hit('datasets-with-interstorm-and-unexplained')
    else:
        hit('datasets-skipped-for-C04-tie-ambiguity')
        if set(got_flags) != set(exp_flags):
            findings.append(('C04', 'flag-rows-differ', {'n_got': len(got_flags), 'n_expected': len(exp_flags)}))

    # ---- C01: pairing table facts
    pairs = connection.execute(
        'SELECT interval_start_epoch, storm_start_epoch, interval_type FROM zeta_interval_storm'
    ).fetchall()
    storms = dict(connection.execute('SELECT start_epoch, thru_epoch FROM storm').fetchall())
    rises = dict(
        connection.execute(
            "SELECT start_epoch, thru_epoch FROM zeta_interval WHERE interval_type='storm'"
        ).fetchall()
    )
    hit('pairs', len(pairs))
    pj = [p[0] for p in pairs]
    ps = [p[1] for p in pairs]
    if len(set(pj)) != len(pj) or len(set(ps)) != len(ps):
        findings.append(('C01', 'storm-or-rise-paired-twice', {'pairs': pairs[:10]}))
    if set(storms) != set(ps):
        findings.append(('C01', 'storm-table-and-pairing-disagree',
                         {'storms_without_pair': sorted(set(storms) - set(ps))[:5],
                          'pairs_without_storm': sorted(set(ps) - set(storms))[:5]}))
    if set(rises) != set(pj):
        findings.append(('C01', 'rise-table-and-pairing-disagree',
                         {'rises_without_pair': sorted(set(rises) - set(pj))[:5],
                          'pairs_without_rise': sorted(set(pj) - set(rises))[:5]}))
    for j, s, _ in pairs:
        if s in storms and j in rises:
            if not max(s, j) < min(storms[s], rises[j]):
                findings.append(('C01', 'pair-does-not-overlap',
                                 {'storm': [s, storms[s]], 'rise': [j, rises[j]]}))

    # ---- C03: recorded storms / rises are maximal runs; depth
    tie_free = not ambiguous_epochs
    for s, t in storms.items():
        if s not in storms_all or storms_all[s][0] != t:
            findings.append(('C03', 'storm-not-a-maximal-run',
                             {'recorded': [s, t], 'maximal_run_starting_there': storms_all.get(s, [None])[0]}))
    for s, t in rises.items():
        if s not in rises_all or rises_all[s][0] != t:
            if tie_free:
                findings.append(('C03', 'rise-not-a-maximal-run',
                                 {'recorded': [s, t], 'maximal_run_starting_there': rises_all.get(s, [None])[0]}))
            else:
                hit('rise-checks-skipped-tie-ambiguity')
    rainrows = connection.execute(
        'SELECT from_epoch, thru_epoch, rainfall_intensity_mm_h FROM rainfall_intensity ORDER BY from_epoch'
    ).fetchall()
    rfrom = [r[0] for r in rainrows]
    depth_view = dict(connection.execute('SELECT storm_start_epoch, total_depth_mm FROM storm_total_rain_depth').fetchall())
    for s, t in storms.items():
        lo = bisect.bisect_left(rfrom, s)
        hi = bisect.bisect_left(rfrom, t)
        ref = math.fsum(r[2] * step_s / 3600.0 for r in rainrows[lo:hi])
        got = depth_view.get(s)
        if got is None or abs(got - ref) > 1e-12 * max(1.0, abs(ref)):
            findings.append(('C03', 'storm-depth-differs', {'storm': [s, t], 'view': got, 'expected': ref}))
        else:
            hit('storm-depths-checked')
    if set(depth_view) != set(storms):
        findings.append(('C03', 'depth-view-rows-differ', {'n_view': len(depth_view), 'n_storms': len(storms)}))

    # ---- C01/C02: pairs are candidates; no blocking pair
    cset = set(cands)
    by_s = {}
    by_j = {}
    for s, j in cands:
        by_s.setdefault(s, []).append(j)
        by_j.setdefault(j, []).append(s)
    if any(len(v) >= 3 for v in by_s.values()):
        hit('datasets-with-storm-having-3+-candidate-rises')
    if any(len(v) >= 3 for v in by_j.values()):
        hit('datasets-with-rise-having-3+-candidate-storms')
    if any(len(v) >= 2 for v in by_s.values()):
        hit('datasets-with-storm-having-2+-candidate-rises')
    if any(len(v) >= 2 for v in by_j.values()):
        hit('datasets-with-rise-having-2+-candidate-storms')
    if len(cands) > len(pairs):
        hit('datasets-with-contention')
    sp = {}
    jp = {}
    for s, j in cands:
        sp[(s, j)] = -abs(storms_all[s][1] - rises_all[j][1])
        jp[(s, j)] = -abs(rises_all[j][2] - storms_all[s][2]) if storms_all[s][3] == rises_all[j][3] else None
    m = {j: s for j, s, _ in pairs}
    sm = {s: j for j, s, _ in pairs}
    blocking = None
    if tie_free:
        for j, s, _ in pairs:
            if (s, j) not in cset:
                findings.append(('C01', 'pair-is-not-an-overlapping-candidate', {'storm': s, 'rise': j}))
        consistent = all((s, j) in cset for j, s, _ in pairs)
        if consistent:
            for s, j in cands:
                if m.get(j) == s:
                    continue
                s_ok = s not in sm or sp[(s, j)] > sp[(s, sm[s])]
                j_ok = j not in m or jp[(s, j)] > jp[(m[j], j)]
                if s_ok and j_ok:
                    blocking = (s, j)
                    break
            if blocking:
                s, j = blocking
                findings.append(('C02', 'blocking-pair', {
                    'storm': [s, storms_all[s][0]], 'rise': [j, rises_all[j][0]],
                    'storm_matched_to': sm.get(s), 'rise_matched_to': m.get(j)}))
            # storm-optimality when preferences are strict
            strict = all(len({sp[(s, j)] for j in js}) == len(js) for s, js in by_s.items()) and all(
                len({jp[(s, j)] for s in ss}) == len(ss) for j, ss in by_j.items())
            own, nrej, ndisp, nexh = own_deferred_acceptance(cands, sp, jp)
            if nrej:
                hit('datasets-with-rejection')
            if ndisp:
                hit('datasets-with-displacement')
            if nexh:
                hit('datasets-with-exhausted-storm')
            if nrej or ndisp:
                stats['contended'] = 1
            if strict:
                hit('datasets-with-strict-preferences')
                if own != m and not blocking:
                    findings.append(('C02', 'not-the-storm-optimal-matching',
                                     {'recorded': sorted(m.items())[:8], 'storm_optimal': sorted(own.items())[:8]}))
            else:
                hit('datasets-with-tied-preferences')
    else:
        hit('datasets-skipped-for-matching-tie-ambiguity')
    stats['signature'] = (tuple(sig_parts), sthr, jthr, step_s)
    return findings, stats
