"""Master-curve walker (C05, C08, C09, C13): recompute from the base tables
what rise / recession must have stored, and compare.  No spowtd import.
"""

import math

import numpy as np

from . import oracle_regrid


def pair_levels(y0, y1, step):
    """(must, maybe) integer levels k with k*step in [lo, hi) for one pair;
    fast float path unless an end is close to a level"""
    if y0 == y1:
        return (), ()
    Y0, Y1 = y0 / step, y1 / step
    lo, hi = (Y0, Y1) if Y1 > Y0 else (Y1, Y0)
    if math.frexp(step)[0] == 0.5 and abs(lo) < 2.0 ** 50 and abs(hi) < 2.0 ** 50:
        # the step is a power of two: the division is exact, nothing is ambiguous
        return tuple(range(math.ceil(lo), math.ceil(hi))), ()
    near = False
    for v in (lo, hi):
        r = abs(v - round(v))
        if r <= 1e-9 * max(1.0, abs(v)):
            near = True
    if not near:
        return tuple(range(math.ceil(lo), math.ceil(hi))), ()
    must, maybe = oracle_regrid.expected(y0, y1, step)
    return tuple(sorted(must)), tuple(sorted(maybe))


class Crossing(tuple):
    """(mean crossing abscissa, ambiguous flag) with an attribute `slack`: how
    far the mean may move within the accuracy of a root finder working on
    y / step (64 eps of the level value divided by the slope of the chord,
    at most the width of the pair) -- only nearly flat chords have any"""

    def __new__(cls, mean, amb, slack):
        obj = super().__new__(cls, (mean, amb))
        obj.slack = slack
        return obj


def own_crossings(x, y, step):
    """level -> Crossing(mean crossing abscissa, ambiguous flag) for one
    series, by closed-form inversion of each chord"""
    acc = {}
    unc = {}
    amb = set()
    for i in range(len(x) - 1):
        must, maybe = pair_levels(y[i], y[i + 1], step)
        if not must and not maybe:
            continue
        for k in maybe:
            amb.add(k)
        dy = y[i + 1] - y[i]
        width = abs(x[i + 1] - x[i])
        yscale = max(1.0, abs(y[i] / step), abs(y[i + 1] / step))
        slack = min(width, 64 * 2.0 ** -52 * yscale / (abs(dy / step) / width)) if dy != 0 and width > 0 else width
        for k in tuple(must) + tuple(maybe):
            target = k * step
            xt = x[i] + (target - y[i]) * (x[i + 1] - x[i]) / dy
            xt = min(max(xt, min(x[i], x[i + 1])), max(x[i], x[i + 1]))
            acc.setdefault(k, []).append(xt)
            unc[k] = unc.get(k, 0.0) + slack
    return {k: Crossing(math.fsum(v) / len(v), k in amb, unc[k] / len(v)) for k, v in acc.items()}


class UnionFind:
    def __init__(self, n):
        self.p = list(range(n))

    def find(self, a):
        while self.p[a] != a:
            self.p[a] = self.p[self.p[a]]
            a = self.p[a]
        return a

    def union(self, a, b):
        a, b = self.find(a), self.find(b)
        if a != b:
            self.p[a] = b


def components(level_sets):
    """level_sets: list of sets of levels per interval -> list of
    (n_levels, sorted member indices)"""
    n = len(level_sets)
    uf = UnionFind(n)
    owner = {}
    for i, lv in enumerate(level_sets):
        for k in lv:
            if k in owner:
                uf.union(i, owner[k])
            else:
                owner[k] = i
    groups = {}
    for i in range(n):
        if level_sets[i]:
            groups.setdefault(uf.find(i), []).append(i)
    out = []
    for members in groups.values():
        levels = set().union(*[level_sets[i] for i in members])
        out.append((len(levels), sorted(members)))
    out.sort(key=lambda t: (-t[0], t[1]))
    return out


def lstsq_offsets(rows):
    """rows: list of (interval id, level, crossing).  Minimise
    sum_h sum_i (o_i + c_ih - mean_h)^2.  Returns (ids, offsets with the last
    id fixed at 0, rank of the normal matrix)"""
    ids = sorted({r[0] for r in rows})
    idx = {s: i for i, s in enumerate(ids)}
    by_level = {}
    for s, k, c in rows:
        by_level.setdefault(k, []).append((idx[s], c))
    n = len(ids)
    A = []
    b = []
    for k, seq in by_level.items():
        m = len(seq)
        cm = sum(c for _, c in seq) / m
        for i, c in seq:
            row = np.zeros(n)
            for j, _ in seq:
                row[j] -= 1.0 / m
            row[i] += 1.0
            A.append(row)
            b.append(-(c - cm))
    A = np.array(A)
    b = np.array(b)
    sol, _, rank, _ = np.linalg.lstsq(A, b, rcond=None)
    sol = sol - sol[-1]
    return ids, sol, rank


def objective(rows, offsets):
    """offsets: dict id -> offset"""
    by_level = {}
    for s, k, c in rows:
        by_level.setdefault(k, []).append(offsets[s] + c)
    total = 0.0
    for seq in by_level.values():
        m = sum(seq) / len(seq)
        total += sum((v - m) ** 2 for v in seq)
    return total


def own_series(connection, kind):
    """(t - t0, zeta) samples of every interstorm interval / the line segment
    (0, z_initial) -> (storm depth, z_final) of every matched rise"""
    (step_s,) = connection.execute('SELECT time_step_s FROM time_grid').fetchone()
    wl = dict(connection.execute('SELECT epoch, zeta_mm FROM water_level'))
    series = {}
    if kind == 'recession':
        classified = dict(connection.execute(
            "SELECT start_epoch, thru_epoch FROM zeta_interval WHERE interval_type='interstorm'"))
        for s, t in classified.items():
            ts = list(range(s, t + 1, step_s))
            if all(e in wl for e in ts) and len(ts) >= 2:
                series[s] = ([float(e - s) for e in ts], [wl[e] for e in ts])
    else:
        classified = dict(connection.execute(
            """SELECT zi.start_epoch, zi.thru_epoch FROM zeta_interval_storm AS zis
               JOIN zeta_interval AS zi ON zi.start_epoch = zis.interval_start_epoch"""))
        pair_storm = dict(connection.execute('SELECT interval_start_epoch, storm_start_epoch FROM zeta_interval_storm'))
        storm_thru = dict(connection.execute('SELECT start_epoch, thru_epoch FROM storm'))
        rain = connection.execute('SELECT from_epoch, thru_epoch, rainfall_intensity_mm_h FROM rainfall_intensity ORDER BY from_epoch').fetchall()
        starts = [r[0] for r in rain]
        import bisect
        for s, t in classified.items():
            st = pair_storm.get(s)
            if st is None or st not in storm_thru or s not in wl or t not in wl:
                continue
            lo = bisect.bisect_left(starts, st)
            hi = bisect.bisect_left(starts, storm_thru[st])
            depth = math.fsum(r * (b - a) / 3600.0 for a, b, r in rain[lo:hi] if b <= storm_thru[st])
            series[s] = ([0.0, depth], [wl[s], wl[t]])
    return classified, series


def main_body(connection, kind, gs, variant='all'):
    """(components, ids): connected groups of the classified intervals of
    that kind under 'share a grid level', largest (by distinct levels) first"""
    _, series = own_series(connection, kind)
    ids = sorted(series)
    crossings = [own_crossings(*series[s], gs) for s in ids]
    if variant == 'must':
        level_sets = [set(k for k, (_, amb) in c.items() if not amb) for c in crossings]
    else:
        level_sets = [set(c) for c in crossings]
    return components(level_sets), ids


def single_interval_body_possible(connection, kind, gs):
    """True when, counting tie-ambiguous levels either way, some group with the
    most distinct levels consists of a single interval (the situation of the
    recorded C08 finding)"""
    groupings = []
    for variant in ('all', 'must'):
        comps, _ = main_body(connection, kind, gs, variant)
        if comps and any(len(m) == 1 for nl, m in comps if nl == comps[0][0]):
            return True
        groupings.append(sorted(tuple(sorted(m)) for nl, m in comps))
    # the two extremes bracket the level counts, not the groupings: when tie-ambiguous levels decide
    # which intervals hang together at all, every mixture of the two is admissible (spowtd's rounding
    # settles each such level on its own), and some mixture may leave a lone interval with the most levels
    if groupings[0] != groupings[1]:
        return True
    return False


def check_grid(connection):
    """C13: the water-level grid is the contiguous range of cells
    [k*step, (k+1)*step) covering [min zeta, max zeta]"""
    findings = []
    stats = {}

    def hit(name, n=1):
        stats[name] = stats.get(name, 0) + n

    (gs,) = connection.execute('SELECT grid_interval_mm FROM zeta_grid').fetchone()
    grid = sorted(r[0] for r in connection.execute('SELECT zeta_number FROM discrete_zeta'))
    zmin, zmax = connection.execute('SELECT min(zeta_mm), max(zeta_mm) FROM water_level').fetchone()
    if zmin is None:
        return findings, stats
    if not grid:
        if zmin != zmax:
            findings.append(('C13', 'grid-empty', {'observed_mm': [zmin, zmax], 'step': gs}))
        return findings, stats
    if grid != list(range(grid[0], grid[-1] + 1)):
        findings.append(('C13', 'grid-not-contiguous', {'first': grid[0], 'last': grid[-1], 'n': len(grid)}))
    tol = 1e-9 * max(1.0, abs(zmin), abs(zmax))
    if grid[0] * gs > zmin + tol or (grid[-1] + 1) * gs < zmax - tol:
        findings.append(('C13', 'grid-does-not-cover-observed-range',
                         {'grid_mm': [grid[0] * gs, (grid[-1] + 1) * gs], 'observed_mm': [zmin, zmax], 'step': gs}))
    else:
        hit('grid-cover-checked')
    for v, got, f, name in ((zmin, grid[0], math.floor, 'low'), (zmax, grid[-1] + 1, math.ceil, 'high')):
        q = v / gs
        if abs(q - round(q)) > 1e-9 * max(1.0, abs(q)):
            if got != f(q):
                findings.append(('C13', 'grid-end-is-not-floor-min-or-ceil-max',
                                 {'end': name, 'value_mm': v, 'quotient': q, 'grid_end': got, 'step': gs}))
        else:
            hit('observed-extreme-on-a-grid-level')
            # on a level: the cell below (low end) / above (high end) is optional
            if got not in (round(q), round(q) - 1 if name == 'low' else round(q) + 1):
                findings.append(('C13', 'grid-end-is-not-floor-min-or-ceil-max',
                                 {'end': name, 'value_mm': v, 'quotient': q, 'grid_end': got, 'step': gs}))
    return findings, stats


def walk_curve(connection, kind, reference_level=None, rng=None, cache=None):
    """kind: 'recession' or 'rise'.  Returns (findings, stats).
    reference_level: integer level k given as -r k*step, or None."""
    findings = []
    stats = {}

    def hit(name, n=1):
        stats[name] = stats.get(name, 0) + n

    (gs,) = connection.execute('SELECT grid_interval_mm FROM zeta_grid').fetchone()
    (step_s,) = connection.execute('SELECT time_step_s FROM time_grid').fetchone()
    grid = sorted(r[0] for r in connection.execute('SELECT zeta_number FROM discrete_zeta'))
    gridset = set(grid)
    wl = dict(connection.execute('SELECT epoch, zeta_mm FROM water_level'))
    if kind == 'recession':
        stored = dict(connection.execute('SELECT start_epoch, time_offset_s FROM recession_interval'))
        rows = connection.execute('SELECT start_epoch, zeta_number, mean_crossing_time FROM recession_interval_zeta').fetchall()
        classified = dict(connection.execute(
            "SELECT start_epoch, thru_epoch FROM zeta_interval WHERE interval_type='interstorm'"))
        view = dict(connection.execute('SELECT zeta_mm, elapsed_time_s FROM average_recession_time').fetchall())
        abs_tol = 1e-6
    else:
        stored = dict(connection.execute('SELECT start_epoch, rain_depth_offset_mm FROM rising_interval'))
        rows = connection.execute('SELECT start_epoch, zeta_number, mean_crossing_depth_mm FROM rising_interval_zeta').fetchall()
        classified = dict(connection.execute(
            """SELECT zi.start_epoch, zi.thru_epoch FROM zeta_interval_storm AS zis
               JOIN zeta_interval AS zi ON zi.start_epoch = zis.interval_start_epoch"""))
        view = dict(connection.execute('SELECT zeta_mm, mean_crossing_depth_mm FROM average_rising_depth').fetchall())
        abs_tol = 1e-9
    hit('intervals-in-curve', len(stored))
    hit('classified-intervals-of-that-kind', len(classified))
    if not stored:
        return findings, stats

    # ---- C13 provenance: intervals
    for s in stored:
        if s not in classified:
            findings.append(('C13', kind + '-interval-is-not-a-classified-interval-of-the-right-kind', {'start_epoch': s}))
    byint = {}
    for s, k, c in rows:
        byint.setdefault(s, {})[k] = c
    if set(byint) != set(stored):
        findings.append(('C13', kind + '-crossing-rows-and-interval-rows-disagree',
                         {'only_rows': sorted(set(byint) - set(stored))[:5], 'only_intervals': sorted(set(stored) - set(byint))[:5]}))

    # ---- own series of every classified interval of that kind
    if cache is not None and ('series', kind, gs) in cache:
        series = cache[('series', kind, gs)]
    else:
        _, series = own_series(connection, kind)
        if cache is not None:
            cache[('series', kind, gs)] = series
    if kind == 'rise':
        segview = {r[0]: r[1:] for r in connection.execute(
            'SELECT interval_start_epoch, rain_depth_offset_mm, rain_total_depth_mm, initial_zeta_mm, final_zeta_mm FROM rising_curve_line_segment')}
        for s in stored:
            if s not in series:
                continue
            (x, y) = series[s]
            sv = segview.get(s)
            if sv is None:
                findings.append(('C13', 'rising_curve_line_segment-row-missing', {'start_epoch': s}))
            else:
                exp = (stored[s], x[1], y[0], y[1])
                if any(abs(a - b) > 1e-9 * max(1.0, abs(b)) for a, b in zip(sv, exp)):
                    findings.append(('C13', 'rising_curve_line_segment-differs', {'view': sv, 'expected': exp}))
                else:
                    hit('line-segment-view-rows-checked')
    if cache is not None and ('own', kind, gs) in cache:
        own = cache[('own', kind, gs)]
    else:
        own = {s: own_crossings(x, y, gs) for s, (x, y) in series.items()}
        if cache is not None:
            cache[('own', kind, gs)] = own

    hit('classified-intervals-crossing-no-grid-level', sum(1 for s_ in own if not own[s_]))
    # ---- C13 crossing values, levels in grid
    n_amb = 0
    for s, levels in byint.items():
        if s not in own:
            continue
        for k, c in levels.items():
            if k not in gridset:
                findings.append(('C13', 'level-not-in-water-level-grid', {'level': k, 'interval': s}))
            if k not in own[s]:
                findings.append(('C13', kind + '-crossing-at-level-the-interval-does-not-cross',
                                 {'interval': s, 'level': k, 'stored': c}))
                continue
            ref, amb = own[s][k]
            if amb:
                n_amb += 1
                continue
            scale = max(1.0, abs(ref))
            if own[s][k].slack > 1e-6 * scale:
                hit('crossings-on-nearly-flat-chords (position ill-conditioned)')
            if abs(c - ref) > abs_tol + 1e-9 * scale + own[s][k].slack:
                findings.append(('C13', kind + '-crossing-value-differs',
                                 {'interval': s, 'level': k, 'stored': c, 'own_mean_crossing': ref}))
            else:
                hit('crossing-values-checked')
    hit('crossings-tie-ambiguous', n_amb)

    # ---- C13 grid covers the observed range
    gf, gstats = check_grid(connection)
    findings.extend(gf)
    for name, n in gstats.items():
        hit(name, n)

    # ---- C08 component handling
    # tie-ambiguous levels may or may not count: the true grouping lies
    # between "all of them count" (coarsest) and "none counts" (finest)
    ids = sorted(own)
    sets_in = [set(own[s]) for s in ids]
    sets_out = [set(k for k, (_, a_) in own[s].items() if not a_) for s in ids]
    comps_in = components(sets_in)
    comps_out = components(sets_out)
    comps = comps_in
    if comps_in:
        hit('components', len(comps_in))
        if len(comps_in) > 1:
            hit('curves-with-2+-components')
        S = set(stored)
        problems = []
        if not any(S <= set(ids[i] for i in m) for _, m in comps_in):
            problems.append('the stored intervals do not all share levels through a chain of overlaps')
        for _, m in comps_out:
            members = set(ids[i] for i in m)
            if members & S and not members <= S:
                problems.append('an interval connected to the stored ones is left out: {}'.format(sorted(members - S)[:5]))
                break
        if not problems:
            n_hi = len(set().union(*[sets_in[ids.index(s)] for s in S if s in own])) if S & set(ids) else 0
            for nl, m in comps_out:
                members = set(ids[i] for i in m)
                if members & S:
                    continue
                if nl > n_hi and len(members) > len(S):
                    problems.append('a larger group exists: {} levels / {} intervals against {} / {}'.format(nl, len(members), n_hi, len(S)))
                    break
        if problems:
            findings.append(('C08', kind + '-curve-is-not-the-main-body',
                             {'problems': problems, 'stored': sorted(stored)[:12],
                              'components_levels_members': [(nl, [ids[i] for i in m][:12]) for nl, m in comps_in[:4]]}))
        else:
            hit('main-body-checked')

    # ---- C05 stationarity, optimality, uniqueness; views
    crows = [(s, k, c) for s, lv in byint.items() for k, c in lv.items() if s in stored]
    by_level = {}
    for s, k, c in crows:
        by_level.setdefault(k, []).append(stored[s] + c)
    avg = {k: sum(v) / len(v) for k, v in by_level.items()}
    scale_all = max([1.0] + [abs(stored[s] + c) for s, k, c in crows])
    worst = 0.0
    for s in stored:
        lv = byint.get(s, {})
        r = math.fsum(stored[s] + c - avg[k] for k, c in lv.items())
        # magnitudes of what is added up, not of the sum: next to the origin of the master curve the
        # aligned value offset + crossing is the small difference of two large numbers
        sc = math.fsum(abs(stored[s]) + abs(c) + abs(avg[k]) for k, c in lv.items()) + 1.0
        worst = max(worst, abs(r) / sc)
        if abs(r) > 1e-9 * sc * max(1, len(lv)) ** 0.5 + abs_tol:
            findings.append(('C05', kind + '-residuals-of-an-interval-do-not-sum-to-zero',
                             {'interval': s, 'residual_sum': r, 'scale': sc, 'n_levels': len(lv)}))
    stats['max-relative-residual'] = worst
    shared = [(s, k, c) for s, k, c in crows if len(by_level[k]) >= 2]
    if len({s for s, _, _ in shared}) >= 2:
        ids2, sol, rank = lstsq_offsets(shared)
        mine = dict(zip(ids2, sol))
        base = {s: stored[s] for s in ids2}
        shift = base[ids2[-1]]
        diff = max(abs((base[s] - shift) - mine[s]) for s in ids2)
        sc = max([1.0] + [abs(base[s] - shift) for s in ids2])
        f_stored = objective(shared, base)
        f_mine = objective(shared, mine)
        fs = max(f_stored, f_mine, 1e-300)
        cond_ok = rank == len(ids2) - 1
        # what solving the normal equations in double precision can leave in the objective: each of
        # the len(shared) terms off by about 1e-12 of the largest aligned value, plus the absolute floor
        noise = abs_tol ** 2 + len(shared) * (1e-12 * scale_all) ** 2
        if cond_ok:
            hit('normal-matrix-rank-n-1')
        if f_stored > f_mine + 1e-9 * fs + noise:
            findings.append(('C05', kind + '-offsets-are-not-the-least-squares-minimiser',
                             {'objective_stored': f_stored, 'objective_lstsq': f_mine}))
        elif cond_ok and diff > 1e-6 * sc + abs_tol and f_stored > f_mine * (1 + 1e-6) + noise:
            findings.append(('C05', kind + '-offsets-differ-from-lstsq-beyond-a-common-shift', {'max_difference': diff, 'scale': sc}))
        else:
            hit('least-squares-optimality-checked')
        if rng is not None:
            for _ in range(8):
                pert = {s: base[s] + rng.gauss(0, 1) * 1e-3 * sc for s in ids2}
                if objective(shared, pert) < f_stored - 1e-9 * fs - noise:
                    findings.append(('C05', kind + '-a-perturbed-offset-vector-has-a-smaller-objective', {'objective_stored': f_stored}))
                    break
        stats['objective'] = f_stored
        if len(ids2) >= 3 and any(len(v) >= 3 for v in by_level.values()):
            stats['c05-nontrivial'] = 1
    # views = mean(offset + crossing) per level, level value = k * step
    exp_view = {k * gs: v for k, v in avg.items()}
    if set(view) != set(exp_view):
        findings.append(('C05', kind + '-master-curve-view-levels-differ',
                         {'only_view': sorted(set(view) - set(exp_view))[:5], 'only_expected': sorted(set(exp_view) - set(view))[:5]}))
    else:
        for z, v in exp_view.items():
            if abs(view[z] - v) > 1e-9 * max(1.0, abs(v)) + abs_tol:
                findings.append(('C05', kind + '-master-curve-view-value-differs', {'zeta_mm': z, 'view': view[z], 'expected': v}))
                break
        else:
            hit('view-levels-checked', len(view))

    # ---- C09 origin
    if avg:
        origin_level = reference_level if reference_level is not None else max(avg)
        tol0 = 1e-6 if kind == 'recession' else 1e-9
        tol0 += 1e-12 * scale_all
        if origin_level not in avg:
            findings.append(('C09', kind + '-reference-level-absent-from-curve', {'level': origin_level}))
        elif abs(avg[origin_level]) > tol0:
            findings.append(('C09', kind + '-master-curve-not-zero-at-origin-level',
                             {'level': origin_level, 'value': avg[origin_level], 'reference_given': reference_level is not None}))
        else:
            # the master curve the user sees is the view: it must show that level, with value 0,
            # and (without a reference) no higher level
            vkey = origin_level * gs
            if vkey not in view or abs(view[vkey]) > tol0 or (reference_level is None and view and max(view) != vkey):
                findings.append(('C09', kind + '-master-curve-view-not-zero-at-origin-level',
                                 {'level': origin_level, 'zeta_mm': vkey, 'view_value': view.get(vkey), 'highest_view_level_mm': max(view) if view else None}))
            else:
                hit('origin-checked')
    stats['levels'] = sorted(avg)
    stats['n_levels'] = len(avg)
    stats['signature'] = (kind, gs, len(stored), len(avg), tuple(sorted(stored))[:6])
    return findings, stats
