"""Reference models for the hydraulic functions (C14-C18).  No spowtd import."""

import math

import numpy as np
from scipy import special

# 5-point Gauss-Legendre: exact for polynomials of degree <= 9
_GL_X, _GL_W = np.polynomial.legendre.leggauss(5)


def gauss_piecewise(f, a, b, breaks):
    """Integral of f over [a, b] (a <= b) as a sum of 5-point Gauss-Legendre
    rules on the pieces delimited by `breaks` (exact for piecewise cubics)"""
    pts = [a] + [x for x in sorted(breaks) if a < x < b] + [b]
    total = 0.0
    for lo, hi in zip(pts[:-1], pts[1:]):
        if hi == lo:
            continue
        xm, xr = 0.5 * (lo + hi), 0.5 * (hi - lo)
        vals = f(xm + xr * _GL_X)
        total += xr * float(np.dot(_GL_W, vals))
    return total


def clamped_integral(f, a, b, knots):
    """Area under z -> f(clamp(z)) between a and b in either order, where f
    is piecewise cubic between the data knots and constant outside"""
    if a == b:
        return 0.0
    if a > b:
        return -clamped_integral(f, b, a, knots)
    lo, hi = knots[0], knots[-1]
    total = 0.0
    if a < lo:
        total += float(f(np.array([lo]))[0]) * (min(b, lo) - a)
    if b > hi:
        total += float(f(np.array([hi]))[0]) * (b - max(a, hi))
    ia, ib = max(a, lo), min(b, hi)
    if ib > ia:
        total += gauss_piecewise(f, ia, ib, knots)
    return total


def transmissivity_closed_form(z, knots, K, t_min):
    """T_min + integral from knots[0] to z of exp(piecewise-linear log K);
    z <= knots[-1]"""
    if z <= knots[0]:
        return t_min
    total = 0.0
    for j in range(len(knots) - 1):
        z0, z1 = knots[j], knots[j + 1]
        if z <= z0:
            break
        upper = min(z, z1)
        s = (math.log(K[j + 1]) - math.log(K[j])) / (z1 - z0)
        d = upper - z0
        if abs(s * d) < 1e-12:
            total += K[j] * d * (1 + 0.5 * s * d)
        else:
            total += K[j] * math.expm1(s * d) / s
    return t_min + total


def norm_cdf(x, sd):
    return 0.5 * special.erfc(-np.asarray(x, dtype=float) / (sd * math.sqrt(2.0)))


def peatclsm_sy_profile(sd, theta_s, b, psi_s, layers=201):
    """Discretised Dettmann-Bechtold soil + microtopography specific yield at
    the 201 tabulated levels; `layers` soil layers are summed (200 in the R
    script shipped with the repository, 201 in the Python code).
    Returns (levels in mm, specific yield)"""
    zl = np.linspace(-1, 1, 201)
    zu = np.linspace(-0.99, 1.01, 201)
    zm = (0.5 * (zl + zu))[:layers]
    dz = (zu - zl)[:layers]
    Fs = norm_cdf(zm, sd)

    def profile(zlu):
        x = (zlu[:, None] - zm[None, :]) * 100
        sat = x >= psi_s * 100
        ratio = np.where(sat, 1.0, x / (psi_s * 100))
        theta = np.where(sat, theta_s, theta_s * ratio ** (-1.0 / b))
        return (1 - Fs)[None, :] * theta

    A = ((profile(zu) - profile(zl)) * dz[None, :]).sum(axis=1)
    sy_soil = A / (zu - zl)
    sy_surface = norm_cdf(0.5 * (zu + zl), sd)
    return 0.5 * (zu + zl) * 1000, sy_soil + sy_surface


def peatclsm_transmissivity(z_mm, Ksmacz0, alpha, zeta_max_cm):
    z_cm = np.asarray(z_mm, dtype=float) / 10
    return Ksmacz0 * (zeta_max_cm - z_cm) ** (1 - alpha) / (100 * (alpha - 1))
