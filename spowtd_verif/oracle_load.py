"""Load walker (C10): what the gridded tables must contain, recomputed from
the generated source rows with own timestamp arithmetic.  No spowtd import."""

import bisect


def walk(connection, rain, et, z, rstep, tz_name):
    """rain, et, z: lists of (epoch, value) as generated (any order).
    Returns (findings, stats)"""
    findings = []
    stats = {}

    def hit(name, n=1):
        stats[name] = stats.get(name, 0) + n

    rain = sorted(rain)
    etd = dict(et)
    z = sorted(z)
    zt = [a for a, _ in z]
    zv = [b for _, b in z]
    lo, hi = zt[0], zt[-1]
    inspan = [t for t, _ in rain if lo <= t <= hi]
    exp_grid = inspan + [inspan[-1] + rstep]
    grid = connection.execute('SELECT epoch, data_interval FROM grid_time ORDER BY epoch').fetchall()
    if [g[0] for g in grid] != exp_grid:
        findings.append(('grid-instants-differ', {'n_got': len(grid), 'n_expected': len(exp_grid),
                                                  'got_first_last': [grid[0][0], grid[-1][0]] if grid else None,
                                                  'expected_first_last': [exp_grid[0], exp_grid[-1]]}))
        return findings, stats
    tg = connection.execute('SELECT time_step_s, source_time_zone FROM time_grid').fetchall()
    if tg != [(rstep, tz_name)]:
        findings.append(('time_grid-row-differs', {'got': tg, 'expected': [rstep, tz_name]}))
    ri = connection.execute('SELECT from_epoch, thru_epoch, rainfall_intensity_mm_h FROM rainfall_intensity ORDER BY 1').fetchall()
    rd = dict(rain)
    if ri != [(t, t + rstep, rd[t]) for t in inspan]:
        bad = [(a, b) for a, b in zip(ri, [(t, t + rstep, rd[t]) for t in inspan]) if a != b][:3]
        findings.append(('rainfall-rows-differ', {'n_got': len(ri), 'n_expected': len(inspan), 'first_differences': bad}))
    else:
        hit('rainfall-rows-checked', len(ri))
    ev = connection.execute('SELECT from_epoch, thru_epoch, evapotranspiration_mm_h FROM evapotranspiration ORDER BY 1').fetchall()
    exp_ev = [(t, t + rstep, etd.get(t)) for t in inspan]
    if ev != exp_ev:
        bad = [(a, b) for a, b in zip(ev, exp_ev) if a != b][:3]
        findings.append(('evapotranspiration-rows-differ', {'n_got': len(ev), 'n_expected': len(exp_ev), 'first_differences': bad}))
    else:
        hit('evapotranspiration-rows-checked', len(ev))
    zmin = min(b - a for a, b in zip(zt, zt[1:]))
    wl = dict(connection.execute('SELECT epoch, zeta_mm FROM water_level'))
    lab = dict(grid)
    stretch_id = [0]
    for a, b in zip(zt, zt[1:]):
        stretch_id.append(stretch_id[-1] + (1 if b - a > zmin else 0))
    ngaps = stretch_id[-1]
    seen = {}
    n_interp = n_coinc = n_gap = 0
    for g in exp_grid[:-1]:
        i = bisect.bisect_right(zt, g) - 1  # zt[i] <= g
        if zt[i] == g:
            val = zv[i]
            ok = True
            sid = stretch_id[i]
            n_coinc += 1
        else:
            ok = zt[i + 1] - zt[i] == zmin
            sid = stretch_id[i]
            if ok:
                val = zv[i] + (zv[i + 1] - zv[i]) * (g - zt[i]) / (zt[i + 1] - zt[i])
                n_interp += 1
            else:
                val = None
                n_gap += 1
        if ok:
            if g not in wl:
                findings.append(('water-level-missing-at-bracketed-instant', {'epoch': g, 'bracket': [zt[i], zt[min(i + 1, len(zt) - 1)]]}))
            elif abs(wl[g] - val) > 1e-12 * max(1.0, abs(val), abs(zv[i]), abs(zv[min(i + 1, len(zv) - 1)])):
                findings.append(('water-level-is-not-the-interpolation-of-the-bracketing-measurements',
                                 {'epoch': g, 'stored': wl[g], 'expected': val}))
            if lab[g] is None:
                findings.append(('label-missing-on-valid-instant', {'epoch': g}))
            else:
                if lab[g] in seen and seen[lab[g]] != sid:
                    findings.append(('one-label-on-two-stretches', {'epoch': g, 'label': lab[g]}))
                seen.setdefault(lab[g], sid)
        else:
            if g in wl:
                findings.append(('water-level-inside-a-source-gap', {'epoch': g, 'gap': [zt[i], zt[i + 1]], 'stored': wl[g]}))
            if lab[g] is not None:
                findings.append(('label-inside-a-source-gap', {'epoch': g, 'gap': [zt[i], zt[i + 1]], 'label': lab[g]}))
    by_sid = {}
    for label, sid in seen.items():
        by_sid.setdefault(sid, set()).add(label)
    if any(len(v) > 1 for v in by_sid.values()):
        findings.append(('one-stretch-carries-two-labels', {'labels_by_stretch': {str(k): sorted(v) for k, v in by_sid.items()}}))
    extra = set(wl) - set(exp_grid[:-1])
    if extra - {exp_grid[-1]}:
        findings.append(('water-level-outside-the-grid', {'epochs': sorted(extra)[:5]}))
    hit('instants-interpolated', n_interp)
    hit('instants-coincident', n_coinc)
    hit('instants-inside-gaps', n_gap)
    hit('source-gaps', ngaps)
    inside = lambda a, b: any(a < g < b for g in exp_grid)
    hit('gaps-without-a-grid-instant-inside', sum(1 for a, b in zip(zt, zt[1:]) if b - a > zmin and lo <= a and b <= hi and not inside(a, b)))
    stats['nontrivial'] = int(n_gap > 0 and n_interp > 0)
    stats['stretches-with-grid-instants'] = len(by_sid)
    # dedupe findings by key
    out = []
    keys = set()
    for k, w in findings:
        if k not in keys:
            keys.add(k)
            out.append((k, w))
    return out, stats
