"""Level-crossing oracle (C12): exact rational membership + residual test.

For a consecutive pair (y0, y1) and a step, the integers k that must be
reported are those with k*step in [lo, hi) (lo included, hi excluded), decided
in exact rational arithmetic on the float inputs.  When y/step is not exactly
representable and lands within 4 eps of an integer, that integer is
tie-ambiguous (either outcome accepted).  Reported abscissae must lie in the
bracket and on the chord (residual within brentq's documented xtol / rtol).
"""

import math
from fractions import Fraction as F

EPS = 2.0 ** -52


def expected(y0, y1, step):
    """(must, maybe) sets of integer levels for one pair"""
    fy0, fy1, fs = F(y0), F(y1), F(step)
    lo, hi = (fy0, fy1) if fy1 > fy0 else (fy1, fy0)
    if lo == hi:
        return set(), set()
    a = lo / fs
    b = hi / fs
    flo, fhi = (y0, y1) if fy1 > fy0 else (y1, y0)
    # is the float division of each end exact?  (an end whose quotient is
    # exact is decided exactly even when the other end's is not)
    exact_lo = F(flo / step) == a
    exact_hi = F(fhi / step) == b
    must, maybe = set(), set()
    for k in range(math.floor(a) - 1, math.ceil(b) + 2):
        inside = (a <= k) and (k < b)
        tol = F(4 * EPS) * max(1, abs(k))
        near_lo = abs(a - k) <= tol and not exact_lo
        near_hi = abs(b - k) <= tol and not exact_hi
        if near_lo or near_hi:
            maybe.add(k)
        elif inside:
            must.add(k)
    return must, maybe


def check(x, y, step, out):
    """x, y: the series; out: list of (level, abscissa) as yielded by regrid.
    Returns (errors, info)"""
    errs = []
    info = {'must': 0, 'maybe': 0}
    exp = []  # (k, pair index, optional)
    for i in range(len(x) - 1):
        must, maybe = expected(y[i], y[i + 1], step)
        info['must'] += len(must)
        info['maybe'] += len(maybe)
        ks = sorted(must | maybe, reverse=not (y[i + 1] > y[i]))
        exp += [(k, i, k in maybe) for k in ks]
    n, m = len(exp), len(out)
    # reach[a][b]: exp[:a] consumed, out[:b] consumed
    reach = [[False] * (m + 1) for _ in range(n + 1)]
    reach[0][0] = True
    residual_errs = []
    for a in range(n):
        k, i, opt = exp[a]
        for b in range(m + 1):
            if not reach[a][b]:
                continue
            if opt:
                reach[a + 1][b] = True
            if b < m and int(out[b][0]) == k:
                xt = float(out[b][1])
                if min(x[i], x[i + 1]) <= xt <= max(x[i], x[i + 1]):
                    Y0, Y1 = y[i] / step, y[i + 1] / step
                    slope = (Y1 - Y0) / (x[i + 1] - x[i])
                    val = Y0 + slope * (xt - x[i])
                    tol = 64 * EPS * max(1.0, abs(Y0), abs(Y1)) + abs(slope) * (2e-12 + 4 * EPS * abs(xt)) * 2
                    if abs(val - k) <= tol:
                        reach[a + 1][b + 1] = True
                    else:
                        residual_errs.append({'pair': i, 'level': k, 'abscissa': xt, 'residual': val - k, 'tolerance': tol})
                else:
                    residual_errs.append({'pair': i, 'level': k, 'abscissa': xt, 'bracket': [x[i], x[i + 1]]})
    if not reach[n][m]:
        if residual_errs:
            errs.append(('crossing-not-on-chord-or-outside-bracket', residual_errs[0]))
        else:
            errs.append(('reported-levels-differ', {
                'expected_level_pair_optional': exp[:14], 'reported': [(int(k), float(v)) for k, v in out[:14]],
                'n_expected': n, 'n_reported': m}))
    return errs, info
