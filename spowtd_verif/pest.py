"""Mini-interpreter of the PEST template / instruction / control file formats,
written from the rules of the PEST manual (not from spowtd):

template   first line "ptf <marker>"; parameter spaces are <marker>name<marker>,
           the space (markers included) is replaced by the value's text.
instruction first line "pif <marker>"; a line starting with the marker is a
           primary marker (advance to the next line containing the text);
           "l<n>" advances n lines; "[obs]c1:c2" reads the observation from
           columns c1..c2 (1-based, inclusive) of the current line.
control    "pcf"; sections start with "* name"; 4th line of "control data" is
           NPAR NOBS NPARGP NPRIOR NOBSGP.
"""

import re


def tpl_parse(text):
    lines = text.split('\n')
    head = lines[0].split()
    if head[0] != 'ptf' or len(head[1]) != 1:
        raise ValueError('not a PEST template file: {!r}'.format(lines[0]))
    m = re.escape(head[1])
    spaces = []
    for ln in lines[1:]:
        for match in re.finditer(m + r'([^' + m + r']*)' + m, ln):
            spaces.append((match.group(1).strip(), len(match.group(0))))
    return head[1], spaces


def tpl_fill(text, values, fmt=None):
    """Replace each parameter space by the value text, left-justified to the
    width of the space.  values: {lower-case name: number}"""
    first, rest = text.split('\n', 1)
    marker = first.split()[1]
    m = re.escape(marker)

    def sub(match):
        name = match.group(1).strip().lower()
        txt = (fmt or repr)(values[name])
        width = len(match.group(0))
        if len(txt) > width:
            raise ValueError('value {} does not fit parameter space of width {}'.format(txt, width))
        return txt.ljust(width)

    return re.sub(m + r'([^' + m + r']*)' + m, sub, rest)


def ins_apply(ins_text, out_text):
    """Returns ({obs name: float}, {obs name: (line text, c1, c2)})"""
    lines = ins_text.split('\n')
    head = lines[0].split()
    if head[0] != 'pif' or len(head[1]) != 1:
        raise ValueError('not a PEST instruction file: {!r}'.format(lines[0]))
    marker = head[1]
    out = out_text.split('\n')
    pos = -1
    vals = {}
    where = {}
    for ln in lines[1:]:
        if not ln.strip():
            continue
        if ln.startswith(marker):
            text = ln[1:ln.index(marker, 1)]
            for i in range(pos + 1, len(out)):
                if text in out[i]:
                    pos = i
                    break
            else:
                raise ValueError('primary marker {!r} not found'.format(text))
            continue
        items = ln.split()
        for item in items:
            mm = re.fullmatch(r'[lL](\d+)', item)
            if mm:
                pos += int(mm.group(1))
                if pos >= len(out):
                    raise ValueError('instruction runs past the end of the output file')
                continue
            mm = re.fullmatch(r'\[(\w+)\](\d+):(\d+)', item)
            if mm:
                a, b = int(mm.group(2)), int(mm.group(3))
                field = out[pos][a - 1:b]
                vals[mm.group(1)] = float(field)
                where[mm.group(1)] = (out[pos], a, b)
                continue
            raise ValueError('unsupported instruction item {!r}'.format(item))
    return vals, where


def pst_parse(text):
    lines = text.split('\n')
    if lines[0].strip() != 'pcf':
        raise ValueError('not a PEST control file')
    sec = {}
    cur = None
    for ln in lines[1:]:
        if ln.startswith('* '):
            cur = ln[2:].strip()
            sec[cur] = []
        else:
            sec[cur].append(ln)
    npar, nobs, npargp, nprior, nobsgp = (int(v) for v in sec['control data'][1].split()[:5])
    return {
        'npar': npar, 'nobs': nobs, 'npargp': npargp, 'nprior': nprior, 'nobsgp': nobsgp,
        'pars': [l.split()[0] for l in sec['parameter data'] if l.strip()],
        'par_groups_used': [l.split()[6] for l in sec['parameter data'] if l.strip()],
        'groups': [l.split()[0] for l in sec['parameter groups'] if l.strip()],
        'obsgroups': [l.strip() for l in sec['observation groups'] if l.strip()],
        'obs': [(l.split()[0], l.split()[1], l.split()[3]) for l in sec['observation data'] if l.strip()],
        'prior': [l for l in sec.get('prior information', []) if l.strip()],
        'io': [l.split() for l in sec.get('model input/output', []) if l.strip()],
    }
