"""C01 -- classification completes; pairing is one-to-one and overlapping"""

from .. import classify_common as cc

PROPERTY = 'C01'
LEVEL = 'exploration'
SHARDS = {'quick': 4, 'thorough': 16}
RULE = (
    'Seeded G-series records (segment templates with a forced feature per case: begins/ends in rain or in a rise, '
    'chains of contending storms and rises, gaps, one-sample stretches, exact ties, extreme thresholds) are loaded '
    'and classified by the real code (function, in-process CLI with verbosity 0-3, bin/spowtd subprocess); thorough adds the two field '
    'datasets x a threshold grid.  Monitors: exception/exit-status monitor, contract on match_storms, dataset walker '
    '(uniqueness of both pairing columns, storm/rise rows <-> pairs, overlap in epochs).  Non-trivial: dataset with '
    '>= 1 candidate storm-rise pair; distinct by (rain pattern, jump pattern, stretch lengths, thresholds, step).'
)
ASSUMPTIONS = [
    'load accepted the dataset (C10/C11 check load itself)',
    'stretches are derived from water_level_staging: a source step larger than the smallest step is a gap',
]
SIZES = {'quick': dict(n=3200, cli=160, sub=4, field=0), 'thorough': dict(n=48000, cli=2400, sub=48, field=48)}
REQUIRED = {
    tier: {
        'classifications-completed': 100,
        'datasets-with-10+-stretches': 3,
        'datasets-starting-at-epoch-zero': 3,
        'stretch-begins-in-heavy-rain': 5,
        'stretch-begins-in-rise': 5,
        'stretch-ends-in-heavy-rain': 5,
        'datasets-with-storm-having-2+-candidate-rises': 5,
        'datasets-with-rise-having-2+-candidate-storms': 5,
        'datasets-with-rejection': 3,
        'datasets-with-rise-having-3+-candidate-storms': 5,
        'datasets-with-storm-having-3+-candidate-rises': 5,
        'datasets-with-displacement': 3,
        'datasets-with-exhausted-storm': 3,
        'one-sample-stretches': 3,
        'datasets-with-3+-stretches': 5,
        'runs-via-cli': 10,
        'cli-runs-with-verbosity-2': 5,
        'cli-runs-with-verbosity-3': 5,
        'runs-via-subprocess': 1,
        'contract-evaluations:spowtd.classify.match_storms': 100,
        'classifications-of-records-with-2000+-steps': 4,
    }
    for tier in ('quick', 'thorough')
}
MIN_NONTRIVIAL = {'quick': 200, 'thorough': 2000}


def run(ctx):
    s = SIZES[ctx.tier]
    cc.run_corpus(ctx, PROPERTY, s['n'], s['cli'], s['sub'],
                  cc.field_grid(ctx.seed, s['field']) if s['field'] else None)


def replay(ctx, case, module=None):
    cc.replay_case(ctx, PROPERTY, case)
