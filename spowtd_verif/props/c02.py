"""C02 -- storm-rise matching is stable and storm-optimal"""

import itertools
import os
import sqlite3

from .. import classify_common as cc
from .. import core, data, faults, gen_series, instrument, oracle_classify

PROPERTY = 'C02'
LEVEL = 'exploration'
SHARDS = {'quick': 4, 'thorough': 16}
RULE = (
    'Three workloads. (a) G-prefs: random bipartite candidate graphs up to 7x7 (30% with tied preferences, cyclic '
    'preference blocks for instances with several stable matchings) handed to the real find_stable_matching under 6 '
    'relabellings of the storm keys (changes the order in which set.pop visits them); oracle = brute force over all '
    'matchings (<= 10 edges): membership in the set of stable matchings, storm-optimality and equality across '
    'relabellings when preferences are strict, weak stability when tied; own deferred acceptance beyond 10 edges. '
    '(b) interval lists handed to the real disambiguate_matching, preferences recomputed from the property '
    '(duration difference in steps, start offset). (c) the G-series corpus through classify with the matching '
    'walker (candidates recomputed from stored rainfall / water level; no blocking pair; storm-optimal when strict) '
    'and data-level order variation (0/1/3/7/8/64 dry flat steps prepended: pairing must be the same up to the '
    'shift). (d) classification through the command line of records with several data intervals, stopped by an injected '
    'error / SQLite interrupt at a chosen internal statement (every statement of some cases, sampled otherwise): '
    'the dataset file afterwards either holds no classification at all or a matching that passes the same walker '
    '(a recorded matching is never the matching of the first data intervals only).  Non-trivial: instance in which deferred acceptance performs >= 1 rejection or displacement; distinct '
    'by canonical preference lists / dataset pattern.'
)
ASSUMPTIONS = [
    'find_stable_matching receives candidate lists ordered worst to best; the list order is the storm\'s preference',
    'a tie in a preference admits any weakly stable outcome',
]
SIZES = {
    'quick': dict(prefs=16000, intervals=4000, n=2000, cli=40, shift=120, stopped=8),
    'thorough': dict(prefs=160000, intervals=40000, n=32000, cli=800, shift=1600, field=48, stopped=96),
}
REQUIRED = {
    tier: {
        'prefs:instances': 500,
        'prefs:instances-with-several-stable-matchings': 20,
        'prefs:tied-instances': 50,
        'prefs:strict-instances-storm-optimality-checked': 200,
        'prefs:relabelled-runs': 1000,
        'intervals:instances': 200,
        'datasets-with-rejection': 3,
        'datasets-with-rise-having-3+-candidate-storms': 5,
        'datasets-with-storm-having-3+-candidate-rises': 5,
        'datasets-with-displacement': 3,
        'datasets-with-strict-preferences': 50,
        'datasets-with-tied-preferences': 20,
        'shift:variants-compared': 20,
        'stopped:classifications-stopped-at-an-internal-statement': 40,
        'stopped:stops-after-a-data-interval-was-written': 10,
        'contract-evaluations:spowtd.classify.find_stable_matching': 500,
    }
    for tier in ('quick', 'thorough')
}
MIN_NONTRIVIAL = {'quick': 300, 'thorough': 3000}


# ---------------------------------------------------------------------------
# Oracle: stable matchings by brute force


def blocking(edges, sp, jp, m):
    """m: jump -> storm.  Strict blocking pairs under scores sp / jp"""
    sm = {s: j for j, s in m.items()}
    out = []
    for s, j in edges:
        if m.get(j) == s:
            continue
        s_ok = s not in sm or sp[(s, j)] > sp[(s, sm[s])]
        j_ok = j not in m or jp[(s, j)] > jp[(m[j], j)]
        if s_ok and j_ok:
            out.append((s, j))
    return out


def all_stable(edges, sp, jp):
    out = []
    for r in range(len(edges) + 1):
        for sub in itertools.combinations(edges, r):
            if len({s for s, _ in sub}) < r or len({j for _, j in sub}) < r:
                continue
            m = {j: s for s, j in sub}
            if not blocking(edges, sp, jp, m):
                out.append(m)
    return out


def gen_prefs(rng):
    """Random candidate graph with scores.  Returns (edges, sp, jp, tied)"""
    mode = rng.random()
    ns, nj = rng.randint(1, 7), rng.randint(1, 7)
    if mode < 0.25:
        # cyclic block: storms and rises 0..k-1, storm i likes rise i best then
        # i+1; rise i likes storm i-1 best -> two or more stable matchings
        k = rng.randint(2, 4)
        edges = []
        sp, jp = {}, {}
        for i in range(k):
            for d, (sv, jv) in enumerate([(2, 1), (1, 2)]):
                e = (i, (i + d) % k)
                edges.append(e)
                sp[e] = sv
                jp[e] = jv
        # add a few random extra edges with low scores
        for _ in range(rng.randint(0, 2)):
            e = (rng.randrange(k), rng.randrange(k))
            if e not in sp:
                edges.append(e)
                sp[e] = -rng.randint(1, 9) - rng.random()
                jp[e] = -rng.randint(1, 9) - rng.random()
        return edges, sp, jp, False
    p = rng.choice([0.3, 0.6, 0.9])
    edges = [(s, j) for s in range(ns) for j in range(nj) if rng.random() < p]
    tied = rng.random() < 0.3
    sp, jp = {}, {}
    if tied:
        for e in edges:
            sp[e] = rng.randint(0, 3)
            jp[e] = rng.randint(0, 3)
    else:
        vals = list(range(len(edges)))
        rng.shuffle(vals)
        for e, v in zip(edges, vals):
            sp[e] = v
        rng.shuffle(vals)
        for e, v in zip(edges, vals):
            jp[e] = v
    return edges, sp, jp, tied


def call_fsm(edges, sp, jp, relabel, rng):
    """Call the real find_stable_matching with storms relabelled by `relabel`
    (dict storm -> key); returns match jump -> original storm"""
    import spowtd.classify as cl

    inv = {v: k for k, v in relabel.items()}
    sc = {}
    for s, j in edges:
        sc.setdefault(relabel[s], []).append(j)
    for s in sc:
        js = sc[s]
        rng.shuffle(js)  # ties may come in any order
        js.sort(key=lambda j, s=s: sp[(inv[s], j)])  # worst .. best
    jpref = {}
    for s, j in edges:
        jpref.setdefault(j, {})[relabel[s]] = jp[(s, j)]
    # insertion order of the dict also varies
    items = list(sc.items())
    rng.shuffle(items)
    result = cl.find_stable_matching(dict(items), jpref)
    return {j: inv[s] for j, s in result.items()}


class HashedKey:
    """Storm key with a chosen hash, so that set.pop() visits storms in many orders"""

    __slots__ = ('name', 'h')

    def __init__(self, name, h):
        self.name = name
        self.h = h

    def __hash__(self):
        return self.h

    def __eq__(self, other):
        return isinstance(other, HashedKey) and self.name == other.name

    def __repr__(self):
        return 'S{}'.format(self.name)

    def __deepcopy__(self, memo):
        return self


def check_prefs_instance(ctx, rng, edges, sp, jp, tied, case=None):
    rec = ctx.rec
    rec.case()
    rec.hit('prefs:instances')
    if not edges:
        rec.hit('prefs:empty-instances')
        return
    case = case or {'kind': 'prefs', 'edges': edges, 'sp': [[list(k), v] for k, v in sp.items()],
                    'jp': [[list(k), v] for k, v in jp.items()], 'tied': tied}
    storms = sorted({s for s, _ in edges})
    small = len(edges) <= 10
    stable = all_stable(edges, sp, jp) if small else None
    if stable is not None and len(stable) > 1:
        rec.hit('prefs:instances-with-several-stable-matchings')
    if tied:
        rec.hit('prefs:tied-instances')
    # the oracle's own run tells whether the instance is contended
    own, nrej, ndisp, nexh = oracle_classify.own_deferred_acceptance(edges, sp, jp)
    if nrej or ndisp:
        rec.mark_nontrivial(core.digest(('prefs', sorted(edges), sorted(sp.items()), sorted(jp.items()))))
        if nrej:
            rec.hit('prefs:instances-with-rejection')
        if ndisp:
            rec.hit('prefs:instances-with-displacement')
        if nexh:
            rec.hit('prefs:instances-with-exhausted-storm')
    results = []
    for variant in range(6):
        if variant == 0:
            relabel = {s: s for s in storms}
        elif variant == 1:
            relabel = {s: 1000 - 7 * s for s in storms}
        elif variant == 2:
            relabel = {s: s * 8 for s in storms}  # collide modulo the table size
        else:
            relabel = {s: HashedKey(s, rng.randrange(0, 64)) for s in storms}
        try:
            m = call_fsm(edges, sp, jp, relabel, rng)
        except Exception as exc:  # pylint: disable=broad-except
            desc = core.describe_exception(exc)
            if desc['origin'] == 'harness':
                rec.inconclusive_because('harness exception calling find_stable_matching: {}'.format(desc))
                return
            rec.violation('find_stable_matching-raises:' + desc['type'], {'exception': desc, 'variant': variant}, case, 'prefs')
            return
        rec.hit('prefs:relabelled-runs')
        results.append(m)
        problems = []
        if len(set(m.values())) != len(m):
            problems.append('storm matched twice')
        if any((s, j) not in sp for j, s in m.items()):
            problems.append('non-candidate pair in result')
        if not problems:
            bp = blocking(edges, sp, jp, m)
            if bp:
                problems.append('blocking pair {}'.format(bp[0]))
        if problems:
            rec.violation('fsm-unstable' if 'blocking' in problems[0] else 'fsm-not-a-matching',
                          {'problems': problems, 'result': sorted(m.items()), 'variant': variant}, case, 'prefs')
            return
        if stable is not None and m not in stable:
            rec.violation('fsm-not-among-stable-matchings', {'result': sorted(m.items())}, case, 'prefs')
            return
    if not tied:
        # strict preferences: unique storm-optimal stable matching, whatever the order
        if any(r != results[0] for r in results[1:]):
            rec.violation('fsm-result-depends-on-order', {'results': [sorted(r.items()) for r in results]}, case, 'prefs')
            return
        m = results[0]
        if m != own:
            rec.violation('fsm-not-storm-optimal', {'result': sorted(m.items()), 'storm_optimal': sorted(own.items())}, case, 'prefs')
            return
        if stable is not None:
            sm = {s: j for j, s in m.items()}
            for m2 in stable:
                sm2 = {s: j for j, s in m2.items()}
                if set(sm) != set(sm2):
                    rec.inconclusive_because('oracle: rural-hospitals property failed in brute force')
                    return
                for s in sm:
                    if sp[(s, sm[s])] < sp[(s, sm2[s])]:
                        rec.violation('fsm-not-storm-optimal', {'result': sorted(m.items()), 'better_for_storm': s, 'other_stable': sorted(m2.items())}, case, 'prefs')
                        return
            rec.hit('prefs:strict-instances-storm-optimality-checked')
        else:
            rec.hit('prefs:strict-instances-compared-with-own-deferred-acceptance')
    if len(ctx.rec.samples) < 2 and (nrej or ndisp):
        rec.sample({'workload': 'prefs', 'edges': edges, 'storm_scores': [[list(k), v] for k, v in sorted(sp.items())],
                    'rise_scores': [[list(k), v] for k, v in sorted(jp.items())], 'result': sorted(results[0].items()),
                    'stable_matchings': len(stable) if stable is not None else None})


# ---------------------------------------------------------------------------
# (b) disambiguate_matching on interval lists


def gen_intervals(rng):
    """Disjoint storm runs and rise runs on a short index axis; candidates =
    overlapping pairs (plus, sometimes, arbitrary extra pairs)"""
    n = rng.randint(6, 40)
    long_events = rng.random() < 0.05
    if long_events:
        # events of thousands of steps (an all-day rain in one-minute data): durations and start
        # offsets of the order of 1e3-1e4
        n = rng.randint(8000, 30000)

    def disjoint_runs():
        out = []
        i = rng.randint(0, 2)
        while i < n:
            L = rng.randint(1, 4) if not long_events else rng.choice([rng.randint(1, 4), rng.randint(800, 4000)])
            out.append((i, min(n, i + L)))
            i += L + (rng.randint(1, 4) if not long_events else rng.choice([rng.randint(1, 4), rng.randint(500, 3000)]))
        return out

    storms = disjoint_runs()                                 # steps [a, b)
    rises = [(a, b + 1) for a, b in disjoint_runs()]          # samples a .. b  ->  slice (a, b+1)
    pairs = [(s, r) for s in storms for r in rises if max(s[0], r[0]) < min(s[1], r[1] - 1)]
    if rng.random() < 0.3:
        for _ in range(rng.randint(1, 3)):
            pairs.append((rng.choice(storms), rng.choice(rises)))
        pairs = list(dict.fromkeys(pairs))
    rng.shuffle(pairs)
    return pairs


def check_intervals_instance(ctx, rng, pairs, case=None):
    import spowtd.classify as cl

    rec = ctx.rec
    rec.case()
    rec.hit('intervals:instances')
    case = case or {'kind': 'intervals', 'pairs': [[list(s), list(r)] for s, r in pairs]}
    if not pairs:
        return
    rain_intervals = [p[0] for p in pairs]
    jump_intervals = [p[1] for p in pairs]
    try:
        got_r, got_j = cl.disambiguate_matching(list(rain_intervals), list(jump_intervals))
    except Exception as exc:  # pylint: disable=broad-except
        desc = core.describe_exception(exc)
        if desc['origin'] == 'harness':
            rec.inconclusive_because('harness exception calling disambiguate_matching: {}'.format(desc))
            return
        rec.violation('disambiguate_matching-raises:' + desc['type'], {'exception': desc}, case, 'intervals')
        return
    got = list(zip([tuple(x) for x in got_r], [tuple(x) for x in got_j]))
    edges = [(s[0], r[0]) for s, r in pairs]
    S = {s[0]: s for s, _ in pairs}
    R = {r[0]: r for _, r in pairs}
    sp = {(s[0], r[0]): -abs((s[1] - s[0]) - (r[1] - r[0] - 1)) for s, r in pairs}
    jp = {(s[0], r[0]): -abs(r[0] - s[0]) for s, r in pairs}
    m = {}
    problems = []
    for s, r in got:
        if (s, r) not in set(pairs):
            problems.append('returned pair {} {} is not a candidate'.format(s, r))
        if r[0] in m:
            problems.append('rise returned twice')
        m[r[0]] = s[0]
    if len(set(m.values())) != len(m):
        problems.append('storm returned twice')
    if not problems:
        bp = blocking(edges, sp, jp, m)
        if bp:
            s, j = bp[0]
            problems.append('blocking pair storm {} rise {}'.format(S[s], R[j]))
    if problems:
        rec.violation('disambiguate-unstable' if 'blocking' in problems[0] else 'disambiguate-not-a-matching',
                      {'problems': problems[:3], 'returned': got[:10]}, case, 'intervals')
        return
    own, nrej, ndisp, _ = oracle_classify.own_deferred_acceptance(edges, sp, jp)
    by_s, by_j = {}, {}
    for s, j in edges:
        by_s.setdefault(s, []).append(j)
        by_j.setdefault(j, []).append(s)
    strict = all(len({sp[(s, j)] for j in js}) == len(js) for s, js in by_s.items()) and all(
        len({jp[(s, j)] for s in ss}) == len(ss) for j, ss in by_j.items())
    if strict:
        rec.hit('intervals:strict-instances')
        if own != m:
            rec.violation('disambiguate-not-storm-optimal', {'returned': sorted(m.items()), 'storm_optimal': sorted(own.items())}, case, 'intervals')
            return
    else:
        rec.hit('intervals:tied-instances')
    if nrej or ndisp:
        rec.hit('intervals:contended-instances')
        rec.mark_nontrivial(core.digest(('intervals', sorted(pairs))))


# ---------------------------------------------------------------------------
# (c) data level: order variation by prepending dry flat steps


def pairing_of(case):
    import spowtd.classify as cl

    connection = data.load_case(case)
    cl.classify_intervals(connection, case['sthr'], case['jthr'])
    (t0,) = connection.execute('SELECT min(epoch) FROM grid_time').fetchone()
    pairs = sorted(connection.execute('SELECT storm_start_epoch, interval_start_epoch FROM zeta_interval_storm').fetchall())
    findings, stats = oracle_classify.walk(connection, case['sthr'], case['jthr'])
    connection.close()
    return t0, pairs, findings, stats


def check_shift_case(ctx, case):
    rec = ctx.rec
    rec.case()
    step = case['step']
    if case['z'][0][0] != 0:
        return
    zt = [t for t, _ in case['z']]
    if len(zt) < 2 or min(b - a for a, b in zip(zt, zt[1:])) != step:
        # prepending samples one rainfall step apart would change what counts as a gap of
        # this record (its smallest water-level step is not the rainfall step)
        rec.hit('shift:record-not-sampled-on-the-rainfall-step (not transformed)')
        return
    try:
        t0, base, findings, stats = pairing_of(case)
    except Exception:  # pylint: disable=broad-except
        rec.hit('shift:base-run-raised (C01 reports it)')
        return
    strict = bool(stats.get('datasets-with-strict-preferences'))
    rec.hit('shift:strict-base-datasets' if strict else 'shift:tied-or-ambiguous-base-datasets')
    base_rel = [(s - t0, j - t0) for s, j in base]
    z0 = case['z'][0][1]
    for k in (1, 3, 7, 8, 64):
        shifted = dict(case)
        shifted['rain'] = [0.0] * k + list(case['rain'])
        shifted['z'] = [[i * step, z0] for i in range(k)] + [[sec + k * step, v] for sec, v in case['z']]
        try:
            t1, got, findings, _ = pairing_of(shifted)
        except Exception as exc:  # pylint: disable=broad-except
            desc = core.describe_exception(exc)
            rec.violation('shifted-record-raises:' + desc['type'], {'exception': desc, 'prepended_steps': k}, shifted, 'shift')
            return
        for p, key, w in findings:
            if p == PROPERTY:
                rec.violation(key, w, shifted, 'classify')
                return
        got_rel = [(s - t1 - k * step, j - t1 - k * step) for s, j in got]
        if strict:
            # no candidate ties with another: the unique storm-optimal stable
            # matching, whatever order the storms are taken in
            rec.hit('shift:variants-compared')
            if got_rel != base_rel:
                rec.violation('pairing-depends-on-record-position',
                              {'prepended_steps': k, 'base': base_rel[:10], 'shifted': got_rel[:10]}, case, 'shift')
                return
        else:
            rec.hit('shift:tied-variants-each-checked-for-stability')
            if got_rel != base_rel:
                rec.hit('shift:tied-variants-with-a-different-stable-outcome')
    if strict and len(base) >= 2 and stats.get('contended'):
        rec.mark_nontrivial(core.digest(('shift', case['rain'], case['z'], case['sthr'], case['jthr'])))


def check_stopped_case(ctx, rng, case, index):
    """(d): classify through the CLI, stopped at internal statements"""
    rec = ctx.rec
    rec.case()
    paths = data.write_case_files(case, ctx.workdir, 'c02s{}'.format(index))
    base = os.path.join(ctx.workdir, 'c02s{}_base.sqlite3'.format(index))
    work = os.path.join(ctx.workdir, 'c02s{}_work.sqlite3'.format(index))
    for f in (base, work):
        if os.path.exists(f):
            os.remove(f)
    status, exc = data.cli(['load', base, '-p', paths[0], '-e', paths[1], '-z', paths[2], '--timezone', 'UTC'])
    if exc is not None or status != 0:
        rec.hit('stopped:record-not-loaded')
        return
    argv = ['classify', 'X', '-s', repr(case['sthr']), '-j', repr(case['jthr'])]

    def step(at=None, mode=None):
        import gc

        for f in (work, work + '-journal'):
            if os.path.exists(f):
                os.remove(f)
        import shutil

        shutil.copy(base, work)
        faults.reset(at, mode)
        try:
            status, exc = data.cli([work if a == 'X' else a for a in argv])
        finally:
            n, log, fired = faults.STATE['n'], list(faults.STATE['log']), faults.STATE['fired']
            faults.disable()
        if exc is not None:
            exc.__traceback__ = None
        exc_desc = core.describe_exception(exc) if exc is not None else None
        del exc
        gc.collect()
        return status, exc_desc, n, log, fired

    status, exc_desc, N, log, _ = step()
    if exc_desc is not None or status != 0:
        rec.hit('stopped:clean-classification-raised (C01 reports it)')
        return
    connection = faults.plain_connect(work)
    n_intervals = connection.execute('SELECT count(*) FROM zeta_interval').fetchone()[0]
    n_links = connection.execute('SELECT count(*) FROM zeta_interval_storm').fetchone()[0]
    findings, _ = oracle_classify.walk(connection, case['sthr'], case['jthr'])
    connection.close()
    if any(p == PROPERTY for p, _, _ in findings):
        return  # the corpus workload reports it
    rec.hit('stopped:records-classified-cleanly')
    if n_links >= 2:
        rec.hit('stopped:records-with-2+-matched-pairs')
    points = list(range(1, N + 1))
    if len(points) > 40:
        points = sorted(rng.sample(points, 40))
    for at in points:
        for mode in ('exc-before', 'interrupt'):
            status, exc_desc, n, log2, fired = step(at, mode)
            if not fired:
                continue
            rec.hit('stopped:classifications-stopped-at-an-internal-statement')
            if any('INSERT INTO zeta_interval' in sql.replace('OR IGNORE ', '') for _, sql in log2[:at - 1]):
                rec.hit('stopped:stops-after-a-data-interval-was-written')
            connection = faults.plain_connect(work)
            try:
                thr = connection.execute('SELECT count(*) FROM thresholds').fetchone()[0]
                recorded = {t: connection.execute('SELECT count(*) FROM {}'.format(t)).fetchone()[0]
                            for t in ('storm', 'zeta_interval', 'zeta_interval_storm')}
                if thr == 0 and not any(recorded.values()):
                    rec.hit('stopped:nothing-recorded-after-the-stop')
                    continue
                rec.hit('stopped:a-classification-is-recorded-after-the-stop')
                findings, _ = oracle_classify.walk(connection, case['sthr'], case['jthr'])
            finally:
                connection.close()
            for p, key, w in findings:
                if p == PROPERTY:
                    w = dict(w)
                    w.update(stopped_at=at, mode=mode, statement=log2[at - 1][1] if at <= len(log2) else None, recorded=recorded)
                    rec.violation('after-a-stopped-classification:' + key, w, dict(case, stopped_at=at, stop_mode=mode), 'stopped')
                    return
    if n_intervals >= 2 and n_links >= 2:
        rec.mark_nontrivial(core.digest(('stopped', case['rain'], case['z'], case['sthr'], case['jthr'])))


# ---------------------------------------------------------------------------


def run(ctx):
    import spowtd.classify as cl

    s = SIZES[ctx.tier]
    contracts = instrument.Contracts()
    cc.install_contracts(contracts)
    reports = []
    contracts.sink = lambda p, k, w: reports.append((p, k, w))
    reach = instrument.Reach([cl.find_stable_matching.__wrapped__])
    try:
        with reach:
            rng = ctx.rng('prefs')
            for _ in range(ctx.share(s['prefs'])):
                edges, sp, jp, tied = gen_prefs(rng)
                check_prefs_instance(ctx, rng, edges, sp, jp, tied)
            rng = ctx.rng('intervals')
            for _ in range(ctx.share(s['intervals'])):
                check_intervals_instance(ctx, rng, gen_intervals(rng))
            label = 'spowtd.classify.find_stable_matching'
            for text, name in (('matchable_storms.add(matches[jump])', 'displaced storm re-queued'),
                               ('matches[jump] = storm', 'match assigned'),
                               ('matchable_storms.add(storm)', 'rejected storm re-queued')):
                if reach.hit_lines_matching(label, text):
                    ctx.rec.hit('reach:find_stable_matching: ' + name)
        for p, k, w in reports:
            if p == PROPERTY:
                ctx.rec.violation(k, w, None, 'prefs')
        contracts.sink = None
    finally:
        contracts.uninstall()
    for name, n in contracts.evaluations.items():
        ctx.rec.hit('contract-evaluations:' + name, n)
    # (c) corpus + shifts
    cc.run_corpus(ctx, PROPERTY, s['n'], s['cli'], 0,
                  cc.field_grid(ctx.seed, s['field']) if s.get('field') else None)
    rng = ctx.rng('shift')
    for i in range(ctx.share(s['shift'])):
        force = ['chain', 'storm_two_rises', 'rise_two_storms', 'displace_exhaust', 'long', None][i % 6]
        case = gen_series.gen(rng, force=force)
        check_shift_case(ctx, case)
    # (d) stopped classifications
    rng = ctx.rng('stopped')
    faults.install()
    try:
        for i in range(ctx.share(s['stopped'])):
            case = gen_series.gen(rng, force=['many_stretches', 'chain', 'rise_many_storms'][i % 3])
            check_stopped_case(ctx, rng, case, i)
    finally:
        faults.uninstall()
        faults.disable()


def replay(ctx, case, module=None):
    rng = core.make_rng('replay')
    if case.get('kind') == 'prefs':
        sp = {tuple(k): v for k, v in case['sp']}
        jp = {tuple(k): v for k, v in case['jp']}
        edges = [tuple(e) for e in case['edges']]
        for _ in range(5):
            check_prefs_instance(ctx, rng, edges, sp, jp, case['tied'], case)
    elif case.get('kind') == 'intervals':
        pairs = [(tuple(s), tuple(r)) for s, r in case['pairs']]
        check_intervals_instance(ctx, rng, pairs, case)
    elif module == 'shift':
        check_shift_case(ctx, case)
    elif module == 'stopped':
        faults.install()
        try:
            check_stopped_case(ctx, rng, {k: v for k, v in case.items() if k not in ('stopped_at', 'stop_mode')}, 0)
        finally:
            faults.uninstall()
            faults.disable()
    else:
        cc.replay_case(ctx, PROPERTY, case)
