"""C03 -- storms and rises are exactly the maximal above-threshold runs"""

from .. import classify_common as cc

PROPERTY = 'C03'
LEVEL = 'exploration'
SHARDS = {'quick': 4, 'thorough': 16}
RULE = (
    'Same G-series corpus as C01 (emphasis: values exactly at a threshold, runs of length one, runs touching the '
    'first / last sample of a stretch, storms cut by a gap) plus field data (thorough).  Monitors: contract on '
    'get_true_interval_masks (masks = maximal True runs, in order) and match_storms; dataset walker: every recorded '
    'storm / rise must be a maximal run of rain > s / increment > j*step inside one gap-free stretch of the source '
    'record, with the epoch conventions of the property; view storm_total_rain_depth against math.fsum over the '
    'storm\'s own rainfall rows (1e-12 relative).  Non-trivial: dataset with >= 1 recorded storm; distinct by pattern.'
)
ASSUMPTIONS = [
    'dyadic cases make every comparison exact, so ties there are decisive; in inexact cases increments within '
    '8 eps of threshold*step are tie-ambiguous and never decide',
]
SIZES = {'quick': dict(n=3200, cli=80, sub=0, field=0), 'thorough': dict(n=48000, cli=1600, sub=0, field=48)}
REQUIRED = {
    tier: {
        'classifications-completed': 100,
        'datasets-with-a-zero-threshold': 5,
        'datasets-with-10+-stretches': 3,
        'datasets-starting-at-epoch-zero': 3,
        'exact-tie-rain-values': 10,
        'exact-tie-increments': 10,
        'storm-runs-of-length-one': 10,
        'rise-runs-of-length-one': 10,
        'stretch-begins-in-heavy-rain': 5,
        'stretch-ends-in-heavy-rain': 5,
        'stretch-begins-in-rise': 5,
        'stretch-ends-in-rise': 5,
        'storm-depths-checked': 100,
        'exact-arithmetic-datasets': 50,
        'contract-evaluations:spowtd.classify.get_true_interval_masks': 100,
        'classifications-of-records-with-2000+-steps': 4,
    }
    for tier in ('quick', 'thorough')
}
MIN_NONTRIVIAL = {'quick': 200, 'thorough': 2000}


def run(ctx):
    s = SIZES[ctx.tier]
    cc.run_corpus(ctx, PROPERTY, s['n'], s['cli'], s['sub'],
                  cc.field_grid(ctx.seed, s['field']) if s['field'] else None)


def replay(ctx, case, module=None):
    cc.replay_case(ctx, PROPERTY, case)
