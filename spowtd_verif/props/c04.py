"""C04 -- interstorm intervals and per-step flags"""

from .. import classify_common as cc

PROPERTY = 'C04'
LEVEL = 'exploration'
SHARDS = {'quick': 4, 'thorough': 16}
RULE = (
    'Same G-series corpus as C01 (no-rain and all-rain records, drizzle below the storm threshold, increments '
    'exactly at the threshold, jumps at rainy and dry samples, single dry samples between rain) plus field data '
    '(thorough).  Monitors: contract on get_mystery_jump_mask (stateless reformulation) and get_true_interval_masks; '
    'dataset walker: interstorm rows == maximal runs (>= 2 samples, never across stretches) of the reference mask, '
    'grid_time_flags == reference flags.  Non-trivial: dataset with >= 1 interstorm interval and >= 1 '
    'unexplained-rise sample that is not itself a jump; distinct by pattern.'
)
ASSUMPTIONS = [
    'reference mask: interstorm_i <=> rain_i = 0, some rain earlier in the stretch, no jump at a sample in (last rainy, i]',
    'jump_i <=> i > 0 and zeta_i - zeta_(i-1) > j * step_h (origin-free form); tie band as in C03',
]
SIZES = {'quick': dict(n=3200, cli=80, sub=0, field=0), 'thorough': dict(n=48000, cli=1600, sub=0, field=48)}
REQUIRED = {
    tier: {
        'classifications-completed': 100,
        'datasets-with-a-zero-threshold': 5,
        'datasets-with-10+-stretches': 3,
        'datasets-starting-at-epoch-zero': 3,
        'datasets-without-rain': 5,
        'datasets-all-heavy-rain': 5,
        'exact-tie-increments': 10,
        'interstorm-intervals': 100,
        'single-sample-interstorm-runs': 10,
        'datasets-with-interstorm-and-unexplained': 20,
        'contract-evaluations:spowtd.classify.get_mystery_jump_mask': 100,
        'classifications-of-records-with-2000+-steps': 4,
    }
    for tier in ('quick', 'thorough')
}
MIN_NONTRIVIAL = {'quick': 100, 'thorough': 1000}


def run(ctx):
    s = SIZES[ctx.tier]
    cc.run_corpus(ctx, PROPERTY, s['n'], s['cli'], s['sub'],
                  cc.field_grid(ctx.seed, s['field']) if s['field'] else None)


def replay(ctx, case, module=None):
    cc.replay_case(ctx, PROPERTY, case)
