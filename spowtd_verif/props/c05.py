"""C05 -- alignment offsets minimise the squared spread of crossing values"""

import math

from .. import core, curves_common, curves_corpus, data, oracle_curves

PROPERTY = 'C05'
LEVEL = 'exploration'
SHARDS = {'quick': 4, 'thorough': 16}
RULE = (
    'Function level: (i) raw head mappings (2-40 series, one in 400 with 1010-1500; chain, star, clique and random connected overlap graphs; '
    'arbitrary crossing values up to 1.7e9; levels crossed by a single series mixed in) handed to the real '
    'find_offsets, (ii) G-intervals collections of (t, H) series handed to the real get_series_time_offsets.  Oracle '
    'on every return value: per-series residual sums vanish (1e-9 * scale), objective at the returned point <= '
    'objective at an independent lstsq solution and at 8 random perturbations, equality with lstsq up to a common '
    'shift when the normal matrix has rank n-1 (checked).  Dataset level: planted / noisy / long G-series datasets '
    'through load, classify, set-zeta-grid, rise, recession (function and CLI), curve walker on rising_interval(_zeta), '
    'recession_interval(_zeta) and on the views average_recession_time / average_rising_depth (recomputed as '
    'mean(offset + crossing) from the base tables); a third of the datasets continue as a multi-step session (grid step '
    'changed, rise / recession run again): whether the repeated commands are refused or accepted, the tables must '
    'still satisfy the walker; another third is taken apart and assembled again with a reference level drawn from the levels of the curve.  Change of units: the same record with rain in units of 2^-30 mm or 2^12 mm (storm '
    'threshold with it) and with levels in units of 2^-4 mm or 2^6 mm (jump threshold and grid step with it) -- '
    'multiplication by a power of two is exact, so the tables must hold the same intervals and levels with the base values in the other unit (1e-9 of the largest value plus the absolute tolerance of the root finder that locates crossings, 2e-12 on the abscissa), and the stationarity condition must hold in the unit of the record itself (residual sums within 1e-9 of the sum of magnitudes, no absolute floor).  Non-trivial: >= 3 intervals and >= 1 level crossed by >= 3 of '
    'them; distinct by overlap-graph signature / dataset digest.'
)
ASSUMPTIONS = [
    'overlap graphs handed to find_offsets are connected (as get_series_time_offsets guarantees); uniqueness is asserted only when rank = n-1',
]
SIZES = {'quick': dict(hm=1600, gi=400, ds=120, cli=12, units=16), 'thorough': dict(hm=24000, gi=6000, ds=2400, cli=160, field=True, units=320)}
REQUIRED = {
    tier: {
        'find_offsets-calls-checked': 200,
        'head-mappings-with-1000+-series': 1,
        'get_series_time_offsets-calls-checked': 50,
        'graph:chain': 20,
        'graph:star': 20,
        'graph:clique': 20,
        'normal-matrix-rank-n-1': 100,
        'recession-curves-assembled': 20,
        'rise-curves-assembled': 20,
        'recession:least-squares-optimality-checked': 20,
        'rise:least-squares-optimality-checked': 20,
        'recession:view-levels-checked': 100,
        'sessions-with-repeated-steps': 5,
        'curves-reassembled-with-a-reference-level': 10,
        'get_series_time_offsets-calls-with-debug-messages-on': 10,
        'curves-assembled-with-debug-messages-on': 5,
        'units:rise-tables-compared-in-other-units': 8,
        'units:recession-tables-compared-in-other-units': 8,
    }
    for tier in ('quick', 'thorough')
}
MIN_NONTRIVIAL = {'quick': 100, 'thorough': 2000}


def gen_head_mapping(rng, many=False):
    n = rng.randint(2, 40) if rng.random() < 0.3 else rng.randint(2, 9)
    graph = rng.choice(['chain', 'star', 'clique', 'random'])
    if many:
        # more than a thousand series in one fit (a site with decades of record)
        n = rng.randint(1010, 1500)
        graph = rng.choice(['chain', 'random'])
    scale = rng.choice([1.0, 3600.0, 1e6, 1.7e9])
    truth = [rng.uniform(-1, 1) * scale for _ in range(n)]
    shape = {}
    level = 0
    hm = {}

    def add_level(members, noise):
        nonlocal level
        base = rng.uniform(-1, 1) * scale
        hm[level] = [(s, base - truth[s] + rng.gauss(0, 1) * noise) for s in members]
        level += 1

    noise = rng.choice([0.0, 1e-3, 1.0, 100.0]) * (scale / 1e3 if scale > 1 else 1.0)
    if graph == 'chain':
        for i in range(n - 1):
            for _ in range(rng.randint(1, 3)):
                add_level([i, i + 1], noise)
    elif graph == 'star':
        for i in range(1, n):
            for _ in range(rng.randint(1, 3)):
                add_level([0, i], noise)
    elif graph == 'clique':
        for _ in range(rng.randint(1, 6)):
            add_level(list(range(n)), noise)
    else:
        # random spanning tree + extra random levels
        order = list(range(n))
        rng.shuffle(order)
        for i in range(1, n):
            add_level([order[i], order[rng.randrange(i)]], noise)
        for _ in range(rng.randint(0, 2 * n)):
            m = rng.randint(2, min(n, 5))
            add_level(rng.sample(range(n), m), noise)
    # uninformative levels crossed by one series only
    for _ in range(rng.randint(0, 4)):
        add_level([rng.randrange(n)], noise)
    items = list(hm.items())
    rng.shuffle(items)
    ids = list(range(n))
    if rng.random() < 0.5:
        # arbitrary (sortable) series identifiers
        ids = sorted(rng.sample(range(max(1000, 10 * n)), n))
    hm = {k: [(ids[s], t) for s, t in rng.sample(seq, len(seq))] for k, seq in items}
    return hm, graph, n


def check_offsets(rec, rows, ids, offsets, label, case, rng, module):
    """rows: (series id, level, crossing) for levels shared by >= 2 series"""
    got = dict(zip(ids, (float(v) for v in offsets)))
    used = sorted({s for s, _, _ in rows})
    if sorted(got) != used:
        rec.violation(label + '-returns-wrong-set-of-series', {'returned': sorted(got)[:20], 'expected': used[:20]}, case, module)
        return False
    by_level = {}
    for s, k, c in rows:
        by_level.setdefault(k, []).append(got[s] + c)
    avg = {k: sum(v) / len(v) for k, v in by_level.items()}
    per = {}
    scale = {}
    for s, k, c in rows:
        per[s] = per.get(s, 0.0) + (got[s] + c - avg[k])
        scale[s] = scale.get(s, 1.0) + abs(got[s] + c) + abs(avg[k])
    worst = max(abs(per[s]) / scale[s] for s in per)
    rec.note_max(label + ': max relative residual sum', worst)
    bad = [s for s in per if abs(per[s]) > 1e-9 * scale[s]]
    ids2, sol, rank = oracle_curves.lstsq_offsets(rows)
    mine = dict(zip(ids2, sol))
    f_got = oracle_curves.objective(rows, got)
    f_mine = oracle_curves.objective(rows, mine)
    fs = max(f_got, f_mine, 1e-300)
    sc = max([1.0] + [abs(v) for v in got.values()] + [abs(c) for _, _, c in rows])
    if rank == len(ids2) - 1:
        rec.hit('normal-matrix-rank-n-1')
    if f_got > f_mine * (1 + 1e-9) + (1e-9 * sc) ** 2:
        rec.violation(label + '-offsets-are-not-the-least-squares-minimiser',
                      {'objective_returned': f_got, 'objective_lstsq': f_mine, 'n_series': len(ids2)}, case, module)
        return False
    if bad:
        rec.violation(label + '-residuals-of-a-series-do-not-sum-to-zero',
                      {'series': bad[:5], 'residual': per[bad[0]], 'scale': scale[bad[0]]}, case, module)
        return False
    for _ in range(8):
        pert = {s: got[s] + rng.gauss(0, 1) * 1e-3 * sc for s in got}
        if oracle_curves.objective(rows, pert) < f_got * (1 - 1e-9) - (1e-9 * sc) ** 2:
            rec.violation(label + '-a-perturbed-offset-vector-has-a-smaller-objective', {'objective_returned': f_got}, case, module)
            return False
    return True


def check_find_offsets(ctx, rng, hm, graph, n):
    import copy
    import spowtd.fit_offsets as fo

    rec = ctx.rec
    rec.case()
    case = {'kind': 'head_mapping', 'head_mapping': {str(k): [[s, t] for s, t in v] for k, v in hm.items()}}
    arg = copy.deepcopy(hm)
    try:
        ids, offsets = fo.find_offsets(arg)
    except Exception as exc:  # pylint: disable=broad-except
        desc = core.describe_exception(exc)
        if desc['origin'] == 'harness':
            rec.inconclusive_because('harness exception calling find_offsets: {}'.format(desc))
            return
        rec.violation('find_offsets-raises:' + desc['type'], {'exception': desc, 'graph': graph}, case, 'head_mapping')
        return
    rows = [(s, k, t) for k, seq in hm.items() if len(seq) >= 2 for s, t in seq]
    rec.hit('graph:' + graph)
    if float(offsets[list(ids).index(max(ids))]) != 0.0:
        rec.hit('reference-series-offset-nonzero (allowed: only relative offsets matter)')
    if check_offsets(rec, rows, list(ids), offsets, 'find_offsets', case, rng, 'head_mapping'):
        rec.hit('find_offsets-calls-checked')
    if n >= 3 and any(len(seq) >= 3 for seq in hm.values()):
        rec.mark_nontrivial(core.digest((graph, n, sorted((k, sorted(s for s, _ in seq)) for k, seq in hm.items()))))
        rec.sample({'workload': 'find_offsets', 'graph': graph, 'n_series': n, 'n_levels': len(hm),
                    'first_levels': {str(k): v[:4] for k, v in list(hm.items())[:3]}})


def gen_intervals(rng):
    """Collection of (t, H) series whose level ranges overlap in a chain, so
    the overlap graph is connected"""
    import numpy as np

    step = rng.choice([1.0, 0.5, 0.1, 0.3, 2.5])
    n = rng.randint(2, 12) if rng.random() < 0.8 else rng.randint(12, 60)
    series = []
    top = rng.uniform(-50, 50)
    for _ in range(n):
        L = rng.randint(3, 25)
        start = top - rng.uniform(0, 4) * step
        kind = rng.random()
        if kind < 0.7:
            dz = [-rng.uniform(0.3, 1.5) * step for _ in range(L)]
        else:
            dz = [rng.uniform(-1.5, 0.5) * step for _ in range(L)]
            dz[0] = -1.2 * step
            dz[-1] = -1.2 * step
        H = np.array([start] + list(start + np.cumsum(dz)))
        dt = rng.choice([1800.0, 3600.0, 1200.0])
        t0 = rng.choice([0.0, 1.6e9, rng.uniform(0, 1e6)])
        series.append((t0 + np.arange(L + 1) * dt, H))
        # next series starts inside this one's range -> chain overlap
        top = float(rng.uniform(min(H) + 2.5 * step, max(H) - 0.1 * step)) if max(H) - min(H) > 3 * step else float(max(H))
    order = list(range(n))
    rng.shuffle(order)
    return step, [series[i] for i in order]


def check_series_offsets(ctx, rng, step, series):
    import spowtd.fit_offsets as fo

    rec = ctx.rec
    rec.case()
    case = {'kind': 'intervals', 'step': step, 'series': [[list(map(float, t)), list(map(float, H))] for t, H in series]}
    try:
        if rng.random() < 0.25:
            # the caller has logging configured at DEBUG
            rec.hit('get_series_time_offsets-calls-with-debug-messages-on')
            with data.library_logging('DEBUG'):
                ind, off, mp = fo.get_series_time_offsets([(t.copy(), H.copy()) for t, H in series], step)
        else:
            ind, off, mp = fo.get_series_time_offsets([(t.copy(), H.copy()) for t, H in series], step)
    except Exception as exc:  # pylint: disable=broad-except
        desc = core.describe_exception(exc)
        if desc['origin'] == 'harness':
            rec.inconclusive_because('harness exception calling get_series_time_offsets: {}'.format(desc))
            return
        key = 'get_series_time_offsets-raises:' + desc['type']
        if 'max() iterable argument is empty' in desc['message']:
            rec.hit('main-body-single-interval (known finding of C08)')
            return
        rec.violation(key, {'exception': desc}, case, 'intervals')
        return
    rows = [(s, k, float(t)) for k, seq in mp.items() if len(seq) >= 2 for s, t in seq]
    if not rows:
        rec.hit('no-shared-level')
        return
    if check_offsets(rec, rows, list(ind), off, 'get_series_time_offsets', case, rng, 'intervals'):
        rec.hit('get_series_time_offsets-calls-checked')
    if len(ind) >= 3 and any(len(seq) >= 3 for seq in mp.values()):
        rec.mark_nontrivial(core.digest(('gi', step, len(series), [round(float(H[0]), 3) for _, H in series])))


def nontrivial(kind, stats):
    return bool(stats.get('c05-nontrivial'))


CURVE_TABLES = {
    'rise': [('rising_interval', 'SELECT start_epoch, rain_depth_offset_mm FROM rising_interval ORDER BY 1'),
             ('rising_interval_zeta', 'SELECT start_epoch, zeta_number, mean_crossing_depth_mm FROM rising_interval_zeta ORDER BY 1, 2')],
    'recession': [('recession_interval', 'SELECT start_epoch, time_offset_s FROM recession_interval ORDER BY 1'),
                  ('recession_interval_zeta', 'SELECT start_epoch, zeta_number, mean_crossing_time FROM recession_interval_zeta ORDER BY 1, 2')],
}


def curve_tables(ctx, case):
    """{kind: {table: rows}} of the curves that assemble on this record (function route)"""
    connection, _, exc = curves_common.build_dataset(ctx, case, 'function')
    if exc is not None:
        if connection is not None:
            connection.close()
        return None, core.describe_exception(exc)
    out = {}
    try:
        for kind in ('rise', 'recession'):
            exc = curves_common.run_curve(connection, kind)
            if exc is not None:
                out[kind] = ('raised', curves_common.classify_outcome(exc)[0])
                continue
            out[kind] = ('ok', {name: connection.execute(sql).fetchall() for name, sql in CURVE_TABLES[kind]})
    finally:
        connection.close()
    return out, None


def check_units(ctx, rng, case, index):
    rec = ctx.rec
    rec.case()
    base, err = curve_tables(ctx, case)
    if base is None:
        rec.hit('units:base-dataset-not-built')
        return
    f = [2.0 ** -30, 2.0 ** 12][index % 2]
    g = [2.0 ** -4, 2.0 ** 6][(index // 2) % 2]
    variants = [
        ('rain-unit', dict(case, rain=[r * f for r in case['rain']], sthr=case['sthr'] * f), {'rise': f, 'recession': 1.0}),
        ('level-unit', dict(case, z=[[t, v * g] for t, v in case['z']], jthr=case['jthr'] * g,
                            grid_step=case.get('grid_step', 1.0) * g), {'rise': 1.0, 'recession': 1.0}),
    ]
    witness_case = {'kind': 'units', 'base': case, 'index': index}
    for name, twin, factor in variants:
        got, err = curve_tables(ctx, twin)
        if got is None:
            rec.violation('units:record-in-other-units-cannot-be-processed', {'variant': name, 'exception': err}, witness_case, 'units')
            continue
        for kind in ('rise', 'recession'):
            if base[kind][0] != 'ok':
                if got[kind][0] == 'ok':
                    rec.hit('units:curve-assembles-only-in-the-other-unit (base refused: {})'.format(base[kind][1]))
                continue
            if got[kind][0] != 'ok':
                rec.violation('units:{}-curve-assembles-only-in-one-unit'.format(kind), {'variant': name, 'outcome': got[kind][1]}, witness_case, 'units')
                continue
            rec.hit('units:{}-tables-compared-in-other-units'.format(kind))
            for table, _ in CURVE_TABLES[kind]:
                a, b = base[kind][1][table], got[kind][1][table]
                if [r[:-1] for r in a] != [r[:-1] for r in b]:
                    rec.violation('units:{}-has-other-intervals-or-levels-in-other-units'.format(table),
                                  {'variant': name, 'base_rows': len(a), 'rows': len(b)}, witness_case, 'units')
                    break
                scale = max([abs(r[-1]) for r in a] + [0.0])
                worst = max([abs(ra[-1] - rb[-1] / factor[kind]) for ra, rb in zip(a, b)] + [0.0])
                # crossings are located by a root finder whose tolerance on the abscissa is absolute
                # (brentq, xtol 2e-12): in a unit of 2^-30 mm that is 2e-3 mm of the base record
                if worst > 1e-9 * scale + 4e-12 / factor[kind]:
                    rec.violation('units:{}-values-are-not-the-base-values-in-the-other-unit'.format(table),
                                  {'variant': name, 'factor': factor[kind], 'largest_value': scale, 'largest_difference': worst,
                                   'relative': worst / scale if scale else None}, witness_case, 'units')
                    break
            # stationarity in the unit of the record itself: for every interval the residuals
            # against the level means sum to zero, to 1e-9 of the sum of the magnitudes involved
            # (no absolute floor: the record may be measured in any unit)
            offsets = dict(got[kind][1][CURVE_TABLES[kind][0][0]])
            crossings = got[kind][1][CURVE_TABLES[kind][1][0]]
            by_level = {}
            for s_, k_, c_ in crossings:
                by_level.setdefault(k_, []).append(offsets[s_] + c_)
            mean = {k_: math.fsum(v) / len(v) for k_, v in by_level.items()}
            # round-off of the table as a whole: a level mean is computed from numbers of the size of the
            # largest offset / crossing, whatever the size of the interval's own entries
            table_scale = max([abs(v) for v in offsets.values()] + [abs(c_) for _, _, c_ in crossings] + [0.0])
            for s_ in offsets:
                mine = [(k_, c_) for s2, k_, c_ in crossings if s2 == s_]
                if not mine:
                    continue
                r = math.fsum(offsets[s_] + c_ - mean[k_] for k_, c_ in mine)
                # magnitudes of what is added up (next to the origin offset + crossing cancels)
                sc = math.fsum(abs(offsets[s_]) + abs(c_) + abs(mean[k_]) for k_, c_ in mine)
                if abs(r) > 1e-9 * sc + 64 * 2.0 ** -52 * table_scale * len(mine):
                    rec.violation('units:{}-residuals-of-an-interval-do-not-sum-to-zero-in-the-unit-of-the-record'.format(kind),
                                  {'variant': name, 'interval': s_, 'residual_sum': r, 'sum_of_magnitudes': sc, 'relative': abs(r) / sc if sc else None},
                                  witness_case, 'units')
                    break
            else:
                rec.hit('units:{}-stationarity-checked-in-the-unit-of-the-record'.format(kind))
        if base['rise'][0] == 'ok' and len(base['rise'][1]['rising_interval']) >= 3:
            rec.mark_nontrivial(core.digest(('units', name, case['rain'], case['z'])))


def run(ctx):
    import numpy as np

    s = SIZES[ctx.tier]
    rng = ctx.rng('head-mappings')
    for i in range(ctx.share(s['hm'])):
        many = i % 400 == 7
        if many:
            ctx.rec.hit('head-mappings-with-1000+-series')
        hm, graph, n = gen_head_mapping(rng, many=many)
        check_find_offsets(ctx, rng, hm, graph, n)
    rng = ctx.rng('intervals')
    for _ in range(ctx.share(s['gi'])):
        step, series = gen_intervals(rng)
        check_series_offsets(ctx, rng, step, series)
    rng = ctx.rng('datasets')
    n = ctx.share(s['ds'])
    ncli = ctx.share(s['cli'])
    for i in range(n):
        case = curves_corpus.make_case(rng, i)
        if i % 4 == 2:
            case, ok = curves_corpus.with_flat_interstorm(case, rng)
            if ok:
                ctx.rec.hit('datasets-with-a-flat-stretch-between-two-drizzles')
        curves_corpus.run_dataset(ctx, PROPERTY, case, 'cli' if i < ncli else 'function', i, nontrivial=nontrivial, session=(i % 3 == 0),
                                  with_reference=(i % 3 == 1))
    rng = ctx.rng('units')
    for i in range(ctx.share(s['units'])):
        check_units(ctx, rng, curves_corpus.make_case(rng, i), i)
    if s.get('field'):
        run_field(ctx)


def run_field(ctx):
    """Field datasets x grid steps (thorough): one combination per shard slot"""
    import spowtd.classify as cl
    import spowtd.zeta_grid as zg
    from .. import classify_common, curves_common

    combos = [(sample, gs) for sample in (1, 2) for gs in (1.0, 0.5, 2.5, 0.3)]
    for k, (sample, gs) in enumerate(combos):
        if k % ctx.nshards != ctx.shard:
            continue
        ctx.rec.case()
        connection = classify_common.load_field(sample)
        cl.classify_intervals(connection, 8.0, 5.0)
        zg.populate_zeta_grid(connection, gs)
        connection.commit()
        case = {'kind': 'field', 'sample': sample, 'grid_step': gs}
        for kind in ('rise', 'recession'):
            exc = curves_common.run_curve(connection, kind)
            if exc is not None:
                ctx.rec.inconclusive_because('field data: {} raised {}'.format(kind, core.describe_exception(exc)))
                continue
            findings, stats = oracle_curves.walk_curve(connection, kind, None, ctx.rng('field', k))
            ctx.rec.hit('field:' + kind + '-curves-walked')
            for p, key, w in findings:
                if p == PROPERTY:
                    ctx.rec.violation(key, w, case, 'field')
            if stats.get('c05-nontrivial'):
                ctx.rec.mark_nontrivial(core.digest(('field', sample, gs, kind)))
        connection.close()


def replay(ctx, case, module=None):
    import numpy as np

    rng = core.make_rng('replay')
    if case.get('kind') == 'head_mapping':
        hm = {int(k): [(s, t) for s, t in v] for k, v in case['head_mapping'].items()}
        check_find_offsets(ctx, rng, hm, 'replay', len({s for v in hm.values() for s, _ in v}))
    elif case.get('kind') == 'units':
        check_units(ctx, rng, case['base'], case['index'])
    elif case.get('kind') == 'intervals':
        check_series_offsets(ctx, rng, case['step'], [(np.array(t), np.array(H)) for t, H in case['series']])
    elif case.get('kind') == 'field':
        ctx.rec.inconclusive_because('field cases are re-run by the thorough tier')
    else:
        curves_corpus.run_dataset(ctx, PROPERTY, case, 'function', 0, nontrivial=nontrivial, session=bool(case.get('session')))
