"""C06 -- a planted master curve is recovered end to end through the CLI"""

import os
import sqlite3
import subprocess
import sys

from .. import core, data, gen_planted, oracle_curves

PROPERTY = 'C06'
LEVEL = 'exploration'
SHARDS = {'quick': 4, 'thorough': 16}
RULE = (
    'G-planted records (recession truth R piecewise linear on the sampling lattice, constant specific yield Sy; '
    '4-25 events of 1-4 heavy steps + light tail landing on a lattice level; steps 900/1200/1800/3600 s; grid steps '
    '0.1-2.5 mm; 0-2 gaps; four time origins) are written to text files and taken through load -> classify -> '
    'set-zeta-grid -> rise -> recession by spowtd.user_interface.main (a sample through bin/spowtd subprocesses). '
    'Monitors: exit status of every step; curve walker with the planted truth: offset + crossing - R^-1(level) and '
    'offset + crossing - Sy*level must each be constant over all (interval, level) rows (1e-5 s / 1e-9*scale mm), '
    'which implies that aligned pieces coincide at common levels and the master curve equals the truth up to the '
    'origin.  Non-trivial: >= 3 recession pieces and >= 3 rises in the assembled curves with >= 2 distinct slopes of '
    'R inside the recovered range; distinct by (dataset digest, grid step).'
)
ASSUMPTIONS = [
    'the generator only emits event sequences consistent with the truth (heavy steps above both thresholds, tail below)',
    'smallest effect of a wrong sample, step or level is one time step (>= 900 s) or one grid cell, far above the tolerances',
]
SIZES = {'quick': dict(n=120, sub=2), 'thorough': dict(n=4000, sub=32)}
REQUIRED = {
    tier: {
        'workflows-completed': 30,
        'recession-curves-compared-with-truth': 30,
        'rise-curves-compared-with-truth': 30,
        'workflows-with-gaps': 5,
        'workflows-with-a-finer-logger-and-readings-lost-at-peaks': 5,
        'workflows-via-subprocess': 1,
    }
    for tier in ('quick', 'thorough')
}
MIN_NONTRIVIAL = {'quick': 20, 'thorough': 500}


def truth_for(case, level_mm):
    for tr in case['truth']:
        if tr['R'][-1] - 1e-9 <= level_mm <= tr['R'][0] + 1e-9:
            return tr
    return None


def evaluate(connection, case):
    """Spread of (stored curve - truth) over all rows; returns dict"""
    gs = case['grid_step']
    step = case['step']
    out = {}
    rows = connection.execute(
        """SELECT zeta_number, time_offset_s + mean_crossing_time, start_epoch
           FROM recession_interval JOIN recession_interval_zeta USING (start_epoch)""").fetchall()
    if rows:
        dd = []
        slopes = set()
        for zn, t, _ in rows:
            tr = truth_for(case, zn * gs)
            if tr is None:
                out['rec_level_outside_truth'] = zn * gs
                continue
            rinv = gen_planted.r_inverse(tr, step)
            dd.append(t - rinv(zn * gs))
            R = tr['R']
            k = int(rinv(zn * gs) // step)
            if 0 <= k < len(R) - 1:
                slopes.add(R[k] - R[k + 1])
        if dd:
            out['rec_spread'] = max(dd) - min(dd)
        out['rec_n'] = len({s for *_, s in rows})
        out['rec_levels'] = len({zn for zn, *_ in rows})
        out['rec_slopes'] = len(slopes)
    rows = connection.execute(
        """SELECT zeta_number, rain_depth_offset_mm + mean_crossing_depth_mm, start_epoch
           FROM rising_interval JOIN rising_interval_zeta USING (start_epoch)""").fetchall()
    if rows:
        sy = case['truth'][0]['sy']
        dd = [w - sy * zn * gs for zn, w, _ in rows]
        out['rise_spread'] = max(dd) - min(dd)
        out['rise_scale'] = max(1.0, max(abs(sy * zn * gs) for zn, _, _ in rows))
        out['rise_n'] = len({s for *_, s in rows})
    # master-curve views against the truth as well
    view = connection.execute('SELECT zeta_mm, elapsed_time_s FROM average_recession_time ORDER BY zeta_mm').fetchall()
    if view:
        dd = []
        for z, t in view:
            tr = truth_for(case, z)
            if tr is not None:
                dd.append(t - gen_planted.r_inverse(tr, step)(z))
        if dd:
            out['rec_view_spread'] = max(dd) - min(dd)
    view = connection.execute('SELECT zeta_mm, mean_crossing_depth_mm FROM average_rising_depth ORDER BY zeta_mm').fetchall()
    if view:
        sy = case['truth'][0]['sy']
        dd = [w - sy * z for z, w in view]
        out['rise_view_spread'] = max(dd) - min(dd)
    return out


def run_workflow(ctx, case, via, index):
    """Returns (db path, list of (step, status, exception description))"""
    paths = data.write_case_files(case, ctx.workdir, 'p{}'.format(index))
    db = os.path.join(ctx.workdir, 'p{}.sqlite3'.format(index))
    for f in (db, db + '-journal'):
        if os.path.exists(f):
            os.remove(f)
    steps = [
        ['load', db, '-p', paths[0], '-e', paths[1], '-z', paths[2], '--timezone', case.get('tz', 'UTC')],
        ['classify', db, '-s', data.num_arg(case['sthr'], index), '-j', data.num_arg(case['jthr'], index + 1)],
        ['set-zeta-grid', db, '-d', data.num_arg(case['grid_step'], index + 2)],
        ['rise', db],
        ['recession', db],
    ]
    verbosity = index % 4
    if verbosity:
        steps = [argv + ['-' + 'v' * verbosity, '--logfile', os.path.join(ctx.workdir, 'p{}.log'.format(index))] for argv in steps]
    log = []
    for argv in steps:
        if via == 'subprocess':
            env = dict(os.environ)
            env['PYTHONPATH'] = core.REPO
            if os.environ.get('SPOWTD_VERIF_OPTIMIZE') == '1':
                env['PYTHONOPTIMIZE'] = '1'
            p = subprocess.run([sys.executable, '-B', os.path.join(core.REPO, 'bin', 'spowtd')] + argv,
                               env=env, capture_output=True, text=True, timeout=600)
            last = p.stderr.strip().splitlines()[-1] if p.stderr.strip() else ''
            log.append((argv[0], p.returncode, None if p.returncode == 0 else {'type': last.split(':')[0][:60], 'message': last[:300], 'site': None, 'origin': 'spowtd'}))
        else:
            status, exc = data.cli(argv)
            log.append((argv[0], status, core.describe_exception(exc) if exc else None))
        if log[-1][1] != 0:
            break
    return db, log


def check_case(ctx, case, via='cli', index=0):
    rec = ctx.rec
    rec.case()
    db, log = run_workflow(ctx, case, via, index)
    rec.hit('workflows-via-' + via)
    failed = [entry for entry in log if entry[1] != 0]
    if failed:
        name, status, desc = failed[0]
        if desc and desc.get('origin') == 'harness':
            rec.inconclusive_because('harness exception in step {}: {}'.format(name, desc))
            return
        if name in ('rise', 'recession') and os.path.exists(db):
            # domain of the property: the pieces must overlap (a main body of
            # at least two intervals); decided by the walker's own union-find
            connection = sqlite3.connect(db)
            try:
                unmet = False
                for variant in ('all', 'must'):  # tie-ambiguous levels counted either way
                    comps, _ = oracle_curves.main_body(connection, name, case['grid_step'], variant)
                    if not comps or len(comps[0][1]) < 2 or (len(comps) > 1 and comps[1][0] == comps[0][0]):
                        unmet = True
            finally:
                connection.close()
            if unmet:
                rec.hit('precondition-not-met: {} pieces have no unique main body of 2+ pieces'.format(name))
                return
        key = 'step-{}-fails:{}'.format(name, (desc or {}).get('type'))
        rec.violation(key, {'step': name, 'status': status, 'exception': desc}, case, 'planted')
        return
    rec.hit('workflows-completed')
    if case.get('dropped'):
        rec.hit('workflows-with-gaps')
    connection = sqlite3.connect(db)
    try:
        o = evaluate(connection, case)
    finally:
        connection.close()
        for f in (db,):
            if os.path.exists(f):
                os.remove(f)
    if 'rec_level_outside_truth' in o:
        rec.violation('recession-level-outside-the-planted-range', o, case, 'planted')
    if 'rec_spread' in o:
        rec.hit('recession-curves-compared-with-truth')
        rec.note_max('worst recession spread, s', o['rec_spread'])
        if o['rec_spread'] > 1e-5 or o.get('rec_view_spread', 0) > 1e-5:
            rec.violation('recession-curve-differs-from-the-planted-truth', o, case, 'planted')
    if 'rise_spread' in o:
        rec.hit('rise-curves-compared-with-truth')
        rec.note_max('worst rise spread / scale', o['rise_spread'] / o['rise_scale'])
        if o['rise_spread'] > 1e-9 * o['rise_scale'] or o.get('rise_view_spread', 0) > 1e-9 * o['rise_scale']:
            rec.violation('rise-curve-differs-from-the-planted-truth', o, case, 'planted')
    if o.get('rec_n', 0) >= 3 and o.get('rise_n', 0) >= 3 and o.get('rec_slopes', 0) >= 2:
        rec.mark_nontrivial(core.digest((case['rain'], case['z'], case['grid_step'], case['sthr'], case['jthr'])))
        rec.sample({'step_s': case['step'], 'grid_step_mm': case['grid_step'], 'sy': case['truth'][0]['sy'],
                    'sthr': case['sthr'], 'jthr': case['jthr'], 'n_steps': len(case['rain']), 'events': case['n_events'],
                    'gaps_at': case['dropped'][:6], 'R_first': case['truth'][0]['R'][:6], 'observed': o})


def run(ctx):
    s = SIZES[ctx.tier]
    rng = ctx.rng('planted')
    n = ctx.share(s['n'])
    nsub = ctx.share(s['sub'])
    for i in range(n):
        case = gen_planted.gen(rng, gaps=[0, 0, 1, 2][i % 4])
        if i % 4 == 1:
            # logged at half the rainfall step, with readings lost at peaks
            case, dropped = gen_planted.with_fine_logger(case, rng)
            if dropped:
                ctx.rec.hit('workflows-with-a-finer-logger-and-readings-lost-at-peaks')
        check_case(ctx, case, 'subprocess' if i < nsub else 'cli', i)


def replay(ctx, case, module=None):
    check_case(ctx, case, 'cli', 0)
