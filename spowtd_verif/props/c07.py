"""C07 -- results do not depend on the time origin"""

import datetime

from .. import core, curves_common, data, gen_planted, gen_series

PROPERTY = 'C07'
LEVEL = 'exploration'
SHARDS = {'quick': 4, 'thorough': 16}
RULE = (
    'Metamorphic: the same wall-clock record (G-series with steps from 1 s to 5 days (mostly 600-7200 s; also steps such as 3900 s whose length in hours does not truncate back to whole seconds) and increments exactly equal '
    'to threshold x step built around level 0 so that the tie survives rounding; G-planted for the master curves) is '
    'loaded 4 times: at a base origin, shifted by a whole number of steps (1 step ... decades: origins 1955-2037, also '
    'straddling epoch 0, i.e. '
    'different binades of epoch/3600), and declared in two other fixed-offset zones (Etc/GMT+-N, Asia/Kolkata, '
    'Asia/Kathmandu, Africa/Lagos).  Each load goes through classify, set-zeta-grid, rise, recession; the full '
    'logical dump of every table, with all epoch columns re-based on the first grid instant, must be identical, the first '
    'grid instant itself must move by exactly the shift (resp. the difference of the UTC offsets, own arithmetic) '
    '(classification tables exactly, curve tables to 1e-9 relative), as must the outcome (completed / refused) of '
    'every step.  Non-trivial: record containing >= 1 increment within 4 ulp of the threshold product, or >= 1 '
    'assembled curve; distinct by (record digest, shift).'
)
ASSUMPTIONS = [
    'zones are fixed-offset over the span of each record (origins are chosen away from the historical transitions of the zones used)',
]
SIZES = {'quick': dict(ties=180, planted=40), 'thorough': dict(ties=4000, planted=800)}
REQUIRED = {
    tier: {
        'variants-compared': 150,
        'records-with-near-tie-increments': 30,
        'near-tie-increments': 100,
        'records-with-assembled-curve': 10,
        'zone-variants': 50,
        'shift-variants-across-years': 30,
        'step-1200-or-600-records': 20,
    }
    for tier in ('quick', 'thorough')
}
MIN_NONTRIVIAL = {'quick': 40, 'thorough': 1000}

EPOCH_COLS = {
    'grid_time': [0], 'grid_time_flags': [0], 'rainfall_intensity': [0, 1], 'evapotranspiration': [0, 1],
    'water_level': [0], 'storm': [0, 1], 'zeta_interval': [0, 2], 'zeta_interval_storm': [0, 2],
    'rising_interval': [0], 'recession_interval': [0], 'rising_interval_zeta': [0], 'recession_interval_zeta': [0],
    'rainfall_intensity_staging': [0], 'water_level_staging': [0], 'evapotranspiration_staging': [0],
}
FLOAT_TABLES = {'rising_interval', 'recession_interval', 'rising_interval_zeta', 'recession_interval_zeta'}
ZONES = ['UTC', 'Etc/GMT+5', 'Etc/GMT-7', 'Etc/GMT-12', 'Asia/Kolkata', 'Asia/Kathmandu', 'Africa/Lagos', 'Etc/GMT+11']
ORIGINS = ['1969-12-31 18:00:00', '1955-05-05 00:00:00', '1971-02-03 00:00:00', '1996-06-01 12:00:00', '2013-07-07 06:00:00', '2021-03-01 00:00:00',
           '2037-11-30 18:00:00', '2004-02-29 00:00:00', '2041-03-01 00:00:00', '2106-02-06 12:00:00']


def gen_tie_record(rng):
    """G-series record whose jump increments are exactly threshold*step,
    built near level 0 so that z[i+1] - z[i] reproduces the product"""
    case = gen_series.gen(rng, force=rng.choice(['tie_jump', 'chain', 'storm_two_rises', None]),
                          dyadic=False if rng.random() < 0.8 else True)
    step = case['step']
    J = case['jthr'] * (step / 3600.0)
    # rebuild the water level from its increments around zero, replacing
    # "big" and "small" increments by exact multiples / the exact tie
    zs = [v for _, v in case['z']]
    secs = [t for t, _ in case['z']]
    out = [0.0]
    for a, b in zip(zs[:-1], zs[1:]):
        d = b - a
        r = rng.random()
        if d > J * 1.01:
            nd = J * rng.choice([1.0, 1.0, 2.0, 1.5])
        elif d > 0:
            nd = J if r < 0.5 else d
        else:
            nd = d if r < 0.5 else 0.0
        out.append(out[-1] + nd)
        if abs(out[-1]) > 40 * J:
            out[-1] = 0.0 if rng.random() < 0.5 else out[-1]
    case['z'] = [[t, v] for t, v in zip(secs, out)]
    gs = rng.choice([0.5, 1.0, 0.3])
    # keep the number of grid levels moderate: with steps of days the threshold product is metres
    while (max(out) - min(out)) / gs > 2500:
        gs *= 2.0
    case['grid_step'] = gs
    return case


def relative_dump(connection):
    (t0,) = connection.execute('SELECT min(epoch) FROM grid_time').fetchone()
    out = {'origin': [(t0,)]}
    for table, cols in EPOCH_COLS.items():
        rows = connection.execute('SELECT * FROM {}'.format(table)).fetchall()
        rb = []
        for row in rows:
            row = list(row)
            for c in cols:
                row[c] = row[c] - t0
            rb.append(tuple(row))
        out[table] = sorted(rb, key=repr)
    for table in ('thresholds', 'zeta_grid', 'discrete_zeta', 'curvature'):
        out[table] = sorted(connection.execute('SELECT * FROM {}'.format(table)).fetchall(), key=repr)
    out['time_grid'] = connection.execute('SELECT time_step_s FROM time_grid').fetchall()
    for view in ('average_recession_time', 'average_rising_depth', 'storm_total_rain_depth'):
        rows = connection.execute('SELECT * FROM {}'.format(view)).fetchall()
        if view == 'storm_total_rain_depth':
            rows = [(r[0] - t0, r[1]) for r in rows]
        out['view:' + view] = sorted(rows, key=repr)
    return out


def process(case):
    """load + classify + grid + rise + recession; returns (dump, outcomes)"""
    import spowtd.classify as cl
    import spowtd.zeta_grid as zg

    connection = data.load_case(case)
    outcomes = []
    try:
        cl.classify_intervals(connection, case['sthr'], case['jthr'])
        outcomes.append(('classify', 'ok'))
    except Exception as exc:  # pylint: disable=broad-except
        connection.rollback()
        outcomes.append(('classify', core.describe_exception(exc)['type']))
        return relative_dump(connection), outcomes, connection
    zg.populate_zeta_grid(connection, case.get('grid_step', 1.0))
    connection.commit()
    for kind in ('rise', 'recession'):
        exc = curves_common.run_curve(connection, kind)
        if exc is None:
            outcomes.append((kind, 'ok'))
        else:
            key, desc = curves_common.classify_outcome(exc)
            outcomes.append((kind, key))
    return relative_dump(connection), outcomes, connection


def compare(base, other):
    """Returns (table, detail) of the first difference or None; and max float diff"""
    worst = 0.0
    for table in base:
        if table == 'origin':
            continue
        a, b = base[table], other[table]
        floaty = table in FLOAT_TABLES or table.startswith('view:')
        if not floaty:
            if a != b:
                diff = [(x, y) for x, y in zip(a, b) if x != y][:3]
                return (table, {'n_base': len(a), 'n_other': len(b), 'first_differences': diff,
                                'only_base': sorted(set(a) - set(b), key=repr)[:3], 'only_other': sorted(set(b) - set(a), key=repr)[:3]}), worst
            continue
        if len(a) != len(b):
            return (table, {'n_base': len(a), 'n_other': len(b)}), worst
        # rows are sorted by repr, which may order nearly-equal floats
        # differently: sort by the integer / key columns instead
        ka = sorted(a, key=lambda r: tuple(v for v in r if isinstance(v, int)) or tuple(r[:1]))
        kb = sorted(b, key=lambda r: tuple(v for v in r if isinstance(v, int)) or tuple(r[:1]))
        scale = max([1.0] + [abs(v) for r in ka for v in r if isinstance(v, float)])
        for ra, rb in zip(ka, kb):
            for va, vb in zip(ra, rb):
                if isinstance(va, float) or isinstance(vb, float):
                    d = abs(va - vb)
                    worst = max(worst, d / scale)
                    if d > 1e-9 * scale:
                        return (table, {'base_row': ra, 'other_row': rb, 'scale': scale}), worst
                elif va != vb:
                    return (table, {'base_row': ra, 'other_row': rb}), worst
    return None, worst


def near_ties(case):
    J = case['jthr'] * (case['step'] / 3600.0)
    zs = [v for _, v in case['z']]
    ts = [t for t, _ in case['z']]
    return sum(1 for i in range(len(zs) - 1)
               if ts[i + 1] - ts[i] == case['step'] and abs((zs[i + 1] - zs[i]) - J) <= 4 * 2.0 ** -52 * abs(J))


def shift_text(t0_text, seconds):
    t = data.parse_t0(t0_text) + datetime.timedelta(seconds=seconds)
    return t.strftime(data.FMT)


def check_case(ctx, rng, case):
    rec = ctx.rec
    rec.case()
    step = case['step']
    base_case = dict(case, t0=rng.choice(ORIGINS), tz='UTC')
    try:
        base, base_out, conn = process(base_case)
        conn.close()
    except Exception as exc:  # pylint: disable=broad-except
        desc = core.describe_exception(exc)
        rec.hit('base-load-refused')
        return
    nt = near_ties(case)
    if nt:
        rec.hit('records-with-near-tie-increments')
        rec.hit('near-tie-increments', nt)
    if step in (600, 1200):
        rec.hit('step-1200-or-600-records')
    assembled = any(o == 'ok' for k, o in base_out if k in ('rise', 'recession'))
    if assembled:
        rec.hit('records-with-assembled-curve')
    variants = []
    # shift by a whole number of steps: small, and across years
    k_small = rng.choice([1, 2, 3, 7, 12345])
    variants.append(('shift', dict(base_case, t0=shift_text(base_case['t0'], k_small * step)), k_small))
    other = rng.choice([o for o in ORIGINS if o != base_case['t0']])
    delta = int((data.parse_t0(other) - data.parse_t0(base_case['t0'])).total_seconds())
    k_big = delta // step
    variants.append(('shift-years', dict(base_case, t0=shift_text(base_case['t0'], k_big * step)), k_big))
    for zone in rng.sample(ZONES[1:], 2):
        variants.append(('zone', dict(base_case, tz=zone), zone))
    for label, variant, what in variants:
        try:
            dump, out, conn = process(variant)
            conn.close()
        except Exception as exc:  # pylint: disable=broad-except
            desc = core.describe_exception(exc)
            rec.violation('variant-load-fails', {'variant': label, 'what': what, 'exception': desc}, dict(case, variant=[label, what], base_t0=base_case['t0']), 'origin')
            return
        rec.hit('variants-compared')
        # every epoch moves by exactly the shift / the difference of the UTC offsets
        expected = data.local_epoch(variant['t0'], variant['tz']) - data.local_epoch(base_case['t0'], base_case['tz'])
        observed = dump.pop('origin')[0][0] - base['origin'][0][0]
        if observed != expected:
            rec.violation('epochs-do-not-move-by-exactly-the-shift', {'variant': label, 'what': what, 'expected_shift_s': expected, 'observed_shift_s': observed},
                          dict(case, variant=[label, what], base_t0=base_case['t0']), 'origin')
            return
        rec.hit('absolute-shifts-checked')
        rec.hit({'shift': 'shift-variants', 'shift-years': 'shift-variants-across-years', 'zone': 'zone-variants'}[label])
        if out != base_out:
            rec.violation('step-outcome-depends-on-origin', {'variant': label, 'what': what, 'base': base_out, 'other': out},
                          dict(case, variant=[label, what], base_t0=base_case['t0']), 'origin')
            return
        diff, worst = compare(base, dump)
        rec.note_max('max relative difference in curve tables', worst)
        if diff is not None:
            table, detail = diff
            rec.violation('table-depends-on-origin:' + table, {'variant': label, 'what': what, 'detail': detail},
                          dict(case, variant=[label, what], base_t0=base_case['t0']), 'origin')
            return
    if nt or assembled:
        rec.mark_nontrivial(core.digest((case['rain'][:40], case['z'][:40], case['sthr'], case['jthr'], base_case['t0'])))
        rec.sample({'step_s': step, 'base_t0': base_case['t0'], 'variants': [(l, w) for l, _, w in variants],
                    'near_tie_increments': nt, 'outcomes': base_out, 'sthr': case['sthr'], 'jthr': case['jthr'], 'z_first': case['z'][:5]})


def run(ctx):
    s = SIZES[ctx.tier]
    rng = ctx.rng('ties')
    for _ in range(ctx.share(s['ties'])):
        check_case(ctx, rng, gen_tie_record(rng))
    rng = ctx.rng('planted')
    for i in range(ctx.share(s['planted'])):
        case = gen_planted.gen(rng, step=[1200, 900, 1800, 3600][i % 4])
        check_case(ctx, rng, case)


def replay(ctx, case, module=None):
    rng = core.make_rng('replay', case.get('base_t0'))
    for _ in range(4):
        check_case(ctx, rng, case)
