"""C08 -- master curves do not depend on arbitrary processing choices; component handling"""

import copy
import math
import os
import pickle

from .. import core, curves_corpus, gen_planted, oracle_curves

PROPERTY = 'C08'
LEVEL = 'exploration'
SHARDS = {'quick': 4, 'thorough': 16}
RULE = (
    'Function level: collections of (t, H) series with 1-4 level-disjoint groups of distinct sizes (monotone and '
    'non-monotone, time origins 0 / 1e6 / 1.6e9; chains in which one interval creeps up before receding so that a single level -- '
    'half of the time level 0 -- bridges two groups built separately; groups joined only at level 0 by the interval with the lowest initial level) handed to the real get_series_time_offsets, which is then re-invoked on '
    '3 permutations of the list and on copies whose series are each shifted along their own axis (integers and '
    'non-dyadic reals); 30% of the collections contain two intervals with bit-identical levels on different clocks, and for those (and 5% of the rest) two orders are each evaluated in a forked child before this process has seen the collection; raw head mappings handed to the real find_offsets and re-invoked with relabelled series ids '
    '(another series becomes the internal zero).  Oracle: own union-find over "share a grid level" names the main '
    'body (most distinct levels; ties in size accept either); the returned set must equal it and relative offsets and '
    'the master curve must agree within 1e-8 relative.  Dataset level: planted two-band records and noisy records '
    'through the CLI workflow (one in six with a grid step the size of a typical rise, so that some matched rises cross no level), walker compares the intervals stored by rise / recession with the main body.  '
    'Non-trivial: >= 4 intervals, permutation != identity, and for the component clause >= 2 components with >= 2 '
    'intervals in the largest; distinct by collection digest.'
)
ASSUMPTIONS = [
    'main body = connected group with the most distinct grid levels; when two groups tie, either is accepted',
]
SIZES = {'quick': dict(gi=600, hm=800, ds=80, cli=8), 'thorough': dict(gi=8000, hm=12000, ds=1600, cli=100)}
REQUIRED = {
    tier: {
        'collections-compared-under-permutation': 100,
        'collections-compared-under-axis-shift': 100,
        'collections-with-2+-components': 40,
        'collections-with-a-bridging-level': 20,
        'collections-joined-only-at-level-zero': 20,
        'collections-with-adjacent-components (levels form one gap-free run)': 10,
        'collections-with-identical-levels-on-different-clocks': 20,
        'collections-compared-across-orders-each-in-its-own-process': 20,
        'datasets-with-a-grid-coarser-than-some-rises': 2,
        'datasets-with-a-small-rise-starting-exactly-on-a-grid-level-at-or-above-zero': 1,
        'main-body-identified': 100,
        'head-mappings-compared-under-relabelling': 100,
        'head-mappings-with-1000+-series-compared-under-relabelling': 1,
        'collections-handed-in-again-as-the-same-objects': 100,
        'recession:main-body-checked': 10,
        'rise:main-body-checked': 10,
        'recession:curves-with-2+-components': 5,
    }
    for tier in ('quick', 'thorough')
}
MIN_NONTRIVIAL = {'quick': 60, 'thorough': 1500}


def gen_collection(rng):
    import numpy as np

    step = rng.choice([1.0, 0.5, 0.1, 0.3, 2.5])
    ncomp = rng.choice([1, 1, 2, 3, 4])
    series = []
    comp_of = []
    base = rng.uniform(-20, 20)
    for cidx in range(ncomp):
        n = rng.randint(2, 8) if cidx == 0 else rng.randint(1, 4)
        top = base
        for _ in range(n):
            L = rng.randint(3, 25)
            start = top - rng.uniform(0, 6) * step * 3
            if rng.random() < 0.7:
                dz = [-rng.uniform(0.05, 1.5) * step for _ in range(L)]
            else:
                dz = [rng.uniform(-1.5, 0.8) * step for _ in range(L)]
            H = np.array([start] + list(start + np.cumsum(dz)))
            dt = rng.choice([1800.0, 3600.0, 1200.0])
            t0 = rng.choice([0.0, 1.6e9, rng.uniform(0, 1e6)])
            series.append((t0 + np.arange(L + 1) * dt, H))
            comp_of.append(cidx)
        base -= 200 * step
    if ncomp > 1 and rng.random() < 0.5:
        # move the groups next to each other: their grid levels then form one
        # gap-free run although no level is shared between two groups
        groups = {}
        for (t, H), c in zip(series, comp_of):
            groups.setdefault(c, []).append((t, H))
        placed = list(groups[0])
        for c in sorted(groups)[1:]:
            lv_placed = set().union(*[set(oracle_curves.own_crossings(list(map(float, t)), list(map(float, H)), step)) for t, H in placed])
            lv_new = set().union(*[set(oracle_curves.own_crossings(list(map(float, t)), list(map(float, H)), step)) for t, H in groups[c]])
            if not lv_placed or not lv_new:
                placed.extend(groups[c])
                continue
            k = (min(lv_placed) - 1) - max(lv_new)
            placed.extend((t, H + k * step) for t, H in groups[c])
        series = placed
    if rng.random() < 0.3:
        # two intervals with bit-identical levels on different clocks (two storms lifting the
        # water table between the same levels with other rain depths; a logger read twice)
        t, H = series[rng.randrange(len(series))]
        series.append((rng.choice([0.0, 1.6e9]) + (t - t[0]) * rng.choice([0.5, 2.0, 3.0]), H.copy()))
    rng.shuffle(series)
    return step, series


def in_fresh_process(function, argument):
    """function(argument) evaluated in a forked child (module-level state of spowtd as it is
    now, nothing of this evaluation is carried over to the next one).  Returns ('ok', value)
    or ('raised', description)"""
    r, w = os.pipe()
    pid = os.fork()
    if pid == 0:
        status = 1
        try:
            os.close(r)
            try:
                out = ('ok', function(argument))
            except Exception as exc:  # pylint: disable=broad-except
                out = ('raised', core.describe_exception(exc))
            with os.fdopen(w, 'wb') as f:
                pickle.dump(out, f)
            status = 0
        finally:
            os._exit(status)
    os.close(w)
    with os.fdopen(r, 'rb') as f:
        blob = f.read()
    os.waitpid(pid, 0)
    return pickle.loads(blob) if blob else ('raised', {'type': 'ChildDied', 'message': 'no result from the child', 'origin': 'harness', 'site': None})


def gen_bridge(rng):
    """A chain A-C-B-D of intervals in which B first creeps UP through levels it
    shares only with D and then falls to the single level it shares with C:
    when the groups {A, C} and {B, D} have been built separately, one level
    bridges them.  Half of the time that bridging level is level 0."""
    import numpy as np

    step = rng.choice([1.0, 0.5, 2.5, 0.1, 0.3])
    k0 = -9 if rng.random() < 0.5 else rng.randint(-40, 40)   # level 9 of the template -> level 9 + k0

    def ramp(a, b, d):
        n = int(round((b - a) / d))
        return [a + i * d for i in range(n + 1)]

    d = rng.choice([0.4, 0.2, 0.8])
    profiles = {
        'A': ramp(5.5, 1.5, -d),
        'B': ramp(9.5, 12.5, 0.6) + ramp(12.5, 8.3, -0.6)[1:],
        'C': ramp(9.7, 3.3, -d),
        'D': ramp(12.7, 9.5, -d),
    }
    # optional extra members hanging on either end
    if rng.random() < 0.5:
        profiles['E'] = ramp(2.6, -1.4, -d)
    if rng.random() < 0.5:
        profiles['F'] = ramp(14.6, 11.6, -d)
    series = []
    for name, prof in profiles.items():
        H = (np.array(prof) + k0) * step
        dt = rng.choice([1800.0, 3600.0, 1200.0])
        t0 = rng.choice([0.0, 1.6e9, rng.uniform(0, 1e6)])
        series.append((t0 + np.arange(len(H)) * dt, H))
    rng.shuffle(series)
    return step, series


def gen_zero_link(rng):
    """Two groups of intervals joined only at grid level 0: the interval with
    the lowest initial level starts just above level 0 and falls below it; the
    others come down from above and stop between levels 0 and -1"""
    import numpy as np

    step = rng.choice([1.0, 0.5, 2.5, 2.0, 0.25])
    series = []

    def falling(a, b, n=None):
        n = n or rng.randint(4, 12)
        H = np.linspace(a, b, n) * step
        dt = rng.choice([1800.0, 3600.0, 1200.0])
        t0 = rng.choice([0.0, 1.6e9, rng.uniform(0, 1e6)])
        return (t0 + np.arange(n) * dt, H)

    series.append(falling(rng.uniform(0.2, 0.8), -rng.uniform(3.5, 7.5)))          # crosses 0, -1, ...
    top = rng.uniform(5.5, 12.5)
    series.append(falling(top, -rng.uniform(0.2, 0.8)))                              # crosses ..., 1, 0
    for _ in range(rng.randint(0, 3)):                                               # more members above level 0
        a = rng.uniform(2.5, top + 3)
        series.append(falling(a, a - rng.uniform(1.5, 2.4) if a > 3 else 0.6))
    rng.shuffle(series)
    return step, series


def own_components(series, step):
    level_sets = [set(oracle_curves.own_crossings(list(map(float, t - t.min())), list(map(float, H)), step)) for t, H in series]
    amb = any(a for t, H in series for (_, a) in oracle_curves.own_crossings(list(map(float, t)), list(map(float, H)), step).values())
    return oracle_curves.components(level_sets), amb


def rel(ind, off):
    o = dict(zip(ind, (float(v) for v in off)))
    k = min(o)
    return {i: o[i] - o[k] for i in o}


def master(ind, off, mp):
    o = dict(zip(ind, (float(v) for v in off)))
    out = {}
    for k, seq in mp.items():
        vals = [o[s] + float(t) for s, t in seq if s in o]
        if len(vals) >= 2:
            out[k] = sum(vals) / len(vals)
    if not out:
        return {}
    k0 = max(out)
    return {k: v - out[k0] for k, v in out.items()}


def close(a, b, scale):
    if set(a) != set(b):
        return False, 'key sets differ'
    d = max([abs(a[k] - b[k]) for k in a] + [0.0])
    return d <= 1e-8 * scale, d


def check_collection(ctx, rng, step, series, case=None):
    import numpy as np
    import spowtd.fit_offsets as fo

    rec = ctx.rec
    rec.case()
    case = case or {'kind': 'collection', 'step': step, 'series': [[list(map(float, t)), list(map(float, H))] for t, H in series]}
    comps, amb = own_components(series, step)
    if not comps:
        rec.hit('no-level-crossed')
        return
    if amb:
        rec.hit('collections-skipped-tie-ambiguity')
        return
    tie = len(comps) > 1 and comps[0][0] == comps[1][0]
    if len(comps) > 1:
        rec.hit('collections-with-2+-components')
        all_levels = sorted(set().union(*[set(oracle_curves.own_crossings(list(map(float, t - t.min())), list(map(float, H)), step)) for t, H in series]))
        if all_levels == list(range(all_levels[0], all_levels[-1] + 1)):
            rec.hit('collections-with-adjacent-components (levels form one gap-free run)')
    candidates = [set(m) for nl, m in comps if nl == comps[0][0]]
    call = lambda ss: fo.get_series_time_offsets([(t.copy(), H.copy()) for t, H in ss], step)
    twins = any(np.array_equal(series[i][1], series[j][1]) and not np.array_equal(series[i][0] - series[i][0][0], series[j][0] - series[j][0][0])
                for i in range(len(series)) for j in range(i))
    if twins:
        rec.hit('collections-with-identical-levels-on-different-clocks')
    fresh = None
    if not tie and (twins or rng.random() < 0.05):
        # each order handled by its own process, as separate command-line runs would be (before this
        # process has seen the collection)
        fresh = []
        for order in (list(range(len(series))), list(reversed(range(len(series))))):
            kind, value = in_fresh_process(call, [series[p] for p in order])
            if kind != 'ok':
                fresh = None
                break
            ind_f, off_f, mp_f = value
            back = [order[i] for i in ind_f]
            fresh.append((rel(back, off_f), master(back, off_f, {k: [(order[s_], t_) for s_, t_ in seq] for k, seq in mp_f.items()})))
    try:
        ind, off, mp = call(series)
    except Exception as exc:  # pylint: disable=broad-except
        desc = core.describe_exception(exc)
        if desc['origin'] == 'harness':
            rec.inconclusive_because('harness exception: {}'.format(desc))
            return
        if 'max() iterable argument is empty' in desc['message'] and any(len(c) == 1 for c in candidates):
            rec.violation('main-body-single-interval', {'exception': desc, 'components_levels_sizes': [(nl, len(m)) for nl, m in comps[:5]]}, case, 'collection')
            return
        rec.violation('get_series_time_offsets-raises:' + desc['type'], {'exception': desc, 'components_levels_sizes': [(nl, len(m)) for nl, m in comps[:5]]}, case, 'collection')
        return
    if set(ind) not in candidates:
        rec.violation('returned-intervals-are-not-the-main-body',
                      {'returned': sorted(ind), 'components_levels_members': [(nl, m) for nl, m in comps[:4]]}, case, 'collection')
        return
    rec.hit('main-body-identified')
    if tie:
        rec.hit('collections-with-tied-component-sizes')
        return
    base = rel(ind, off)
    mbase = master(ind, off, mp)
    scale = max([1.0] + [abs(v) for v in base.values()] + [abs(v) for v in mbase.values()])
    n = len(series)
    # permutations
    for _ in range(3):
        perm = list(range(n))
        rng.shuffle(perm)
        try:
            ind2, off2, mp2 = call([series[p] for p in perm])
        except Exception as exc:  # pylint: disable=broad-except
            rec.violation('permuted-collection-raises', {'exception': core.describe_exception(exc), 'permutation': perm}, case, 'collection')
            return
        back = [perm[i] for i in ind2]
        mp2b = {k: [(perm[s], t) for s, t in seq] for k, seq in mp2.items()}
        ok, d = close(rel(back, off2), base, scale)
        ok2, d2 = close(master(back, off2, mp2b), mbase, scale)
        if not (ok and ok2):
            rec.violation('result-depends-on-the-order-of-intervals', {'permutation': perm, 'offset_difference': d, 'curve_difference': d2, 'scale': scale}, case, 'collection')
            return
    rec.hit('collections-compared-under-permutation')
    # the caller keeps its arrays: the very same objects handed in again in another order (no
    # copies) must give the same alignment, and must not have been changed by the first call
    kept = [(t.copy(), H.copy()) for t, H in series]
    snapshots = [(t.tobytes(), H.tobytes()) for t, H in kept]
    try:
        fo.get_series_time_offsets(list(kept), step)
        changed = [i for i, (t, H) in enumerate(kept) if (t.tobytes(), H.tobytes()) != snapshots[i]]
        if changed:
            rec.violation('the-intervals-handed-in-are-modified', {'series': changed[:5]}, case, 'collection')
            return
        perm = list(range(n))
        rng.shuffle(perm)
        ind4, off4, mp4 = fo.get_series_time_offsets([kept[p] for p in perm], step)
    except Exception as exc:  # pylint: disable=broad-except
        rec.violation('collection-handed-in-again-raises', {'exception': core.describe_exception(exc)}, case, 'collection')
        return
    back = [perm[i] for i in ind4]
    ok, d = close(rel(back, off4), base, scale)
    ok2, d2 = close(master(back, off4, {k: [(perm[s_], t_) for s_, t_ in seq] for k, seq in mp4.items()}), mbase, scale)
    if not (ok and ok2):
        rec.violation('result-changes-when-the-same-arrays-are-handed-in-again', {'offset_difference': d, 'curve_difference': d2, 'scale': scale}, case, 'collection')
        return
    rec.hit('collections-handed-in-again-as-the-same-objects')
    if fresh:
        rec.hit('collections-compared-across-orders-each-in-its-own-process')
        for which, (rel_f, master_f) in zip(('as given', 'reversed'), fresh):
            ok, d = close(rel_f, base, scale)
            ok2, d2 = close(master_f, mbase, scale)
            if not (ok and ok2):
                rec.violation('result-depends-on-the-order-of-intervals-when-each-order-has-its-own-process',
                              {'order': which, 'offset_difference': d, 'curve_difference': d2, 'scale': scale, 'identical_levels_on_different_clocks': twins}, case, 'collection')
                return
    # shifts of each interval's own axis
    for mode in ('integers', 'reals'):
        sh = []
        for t, H in series:
            c = rng.choice([0, 100000, -370000000, 86400 * 365]) if mode == 'integers' else rng.choice([0.0, 1234.567, -9.87654321e5, 1e-3])
            sh.append((t + c, H))
        try:
            ind3, off3, mp3 = call(sh)
        except Exception as exc:  # pylint: disable=broad-except
            rec.violation('shifted-collection-raises', {'exception': core.describe_exception(exc)}, case, 'collection')
            return
        ok, d = close(rel(ind3, off3), base, scale)
        ok2, d2 = close(master(ind3, off3, mp3), mbase, scale)
        if not (ok and ok2):
            rec.violation('result-depends-on-a-shift-of-an-interval-axis', {'mode': mode, 'offset_difference': d, 'curve_difference': d2, 'scale': scale}, case, 'collection')
            return
    rec.hit('collections-compared-under-axis-shift')
    if len(ind) >= 4:
        if len(comps) < 2 or len(comps[0][1]) >= 2:
            rec.mark_nontrivial(core.digest((step, [[round(float(v), 4) for v in H[:4]] for _, H in series])))
            rec.sample({'workload': 'collection', 'step': step, 'n_series': n, 'components_levels_sizes': [(nl, len(m)) for nl, m in comps],
                        'first_series_H': [round(float(v), 3) for v in series[0][1][:6]], 'relative_offsets': {str(k): round(v, 3) for k, v in list(base.items())[:5]}})


def check_relabelling(ctx, rng, many=False):
    """find_offsets: another series as the internal zero"""
    import spowtd.fit_offsets as fo
    from .c05 import gen_head_mapping

    rec = ctx.rec
    rec.case()
    hm, graph, n = gen_head_mapping(rng, many=many)
    if many:
        rec.hit('head-mappings-with-1000+-series-compared-under-relabelling')
    case = {'kind': 'head_mapping', 'head_mapping': {str(k): [[s, t] for s, t in v] for k, v in hm.items()}}
    ids = sorted({s for seq in hm.values() for s, _ in seq})
    try:
        i1, o1 = fo.find_offsets(copy.deepcopy(hm))
    except Exception as exc:  # pylint: disable=broad-except
        rec.hit('find_offsets-raised (C05 reports it)')
        return
    base = rel(list(i1), o1)
    scale = max([1.0] + [abs(v) for v in base.values()] + [abs(t) for seq in hm.values() for _, t in seq])
    for _ in range(2):
        new = list(range(5000, 5000 + len(ids)))
        rng.shuffle(new)
        m = dict(zip(ids, new))
        inv = {v: k for k, v in m.items()}
        hm2 = {k: [(m[s], t) for s, t in seq] for k, seq in hm.items()}
        items = list(hm2.items())
        rng.shuffle(items)
        try:
            i2, o2 = fo.find_offsets(dict(items))
        except Exception as exc:  # pylint: disable=broad-except
            rec.violation('relabelled-head-mapping-raises', {'exception': core.describe_exception(exc)}, case, 'head_mapping')
            return
        r2 = rel([inv[s] for s in i2], o2)
        # rel() is relative to the smallest id present; re-base on the same series
        k0 = min(base)
        r2 = {k: v - r2[k0] for k, v in r2.items()}
        # conditioning of the problem: compare objectives as well as offsets
        ok, d = close(r2, base, scale)
        if not ok:
            rows = [(s, k, t) for k, seq in hm.items() if len(seq) >= 2 for s, t in seq]
            f1 = oracle_curves.objective(rows, dict(zip(i1, map(float, o1))))
            f2 = oracle_curves.objective(rows, {inv[s]: float(v) for s, v in zip(i2, o2)})
            _, _, rank = oracle_curves.lstsq_offsets(rows)
            if rank == len(ids) - 1 and abs(f1 - f2) > 1e-9 * max(f1, f2, 1e-300):
                rec.violation('result-depends-on-which-series-is-the-internal-zero', {'offset_difference': d, 'scale': scale, 'objectives': [f1, f2]}, case, 'head_mapping')
                return
            rec.hit('relabelling-differences-within-conditioning')
    rec.hit('head-mappings-compared-under-relabelling')


def nontrivial(kind, stats):
    return stats.get('components', 0) >= 2 and stats.get('intervals-in-curve', 0) >= 2


def run(ctx):
    s = SIZES[ctx.tier]
    rng = ctx.rng('collections')
    for i in range(ctx.share(s['gi'])):
        if i % 6 == 5:
            step, series = gen_bridge(rng)
            ctx.rec.hit('collections-with-a-bridging-level')
        elif i % 6 == 2:
            step, series = gen_zero_link(rng)
            ctx.rec.hit('collections-joined-only-at-level-zero')
        else:
            step, series = gen_collection(rng)
        check_collection(ctx, rng, step, series)
    rng = ctx.rng('relabel')
    for i in range(ctx.share(s['hm'])):
        check_relabelling(ctx, rng, many=(i % 200 == 5))
    rng = ctx.rng('datasets')
    n = ctx.share(s['ds'])
    ncli = ctx.share(s['cli'])
    for i in range(n):
        if i % 6 == 5:
            case = gen_planted.gen_slow(rng)
        elif i % 6 == 1:
            # grid step about the size of a typical rise: some matched rises cross no level and
            # must be left out without disturbing the others
            case = gen_planted.gen(rng, n_events=rng.randint(12, 25))
            zs = [v for _, v in case['z']]
            ups = sorted(b - a for a, b in zip(zs, zs[1:]) if b - a > 0.5)
            case['grid_step'] = float(max(2, round(1.5 * ups[len(ups) // 2]))) if ups else 8.0
            ctx.rec.hit('datasets-with-a-grid-coarser-than-some-rises')
            # ... and the record placed so that a rise smaller than one grid step starts exactly on a grid
            # level at or above zero (it shares that level with whatever else crosses it)
            gs = case['grid_step']
            small = [k for k in range(1, len(zs) - 1) if zs[k] <= zs[k - 1] and zs[k + 1] > zs[k] and 0.5 < max(zs[k + 1:k + 6]) - zs[k] < gs]
            if small:
                k = rng.choice(small)
                target = max(0, math.ceil(zs[k] / gs)) * gs
                delta = target - zs[k]
                case['z'] = [[t, target if j == k else v + delta] for j, (t, v) in enumerate(case['z'])]
                ctx.rec.hit('datasets-with-a-small-rise-starting-exactly-on-a-grid-level-at-or-above-zero')
        elif i % 3 == 2:
            case = gen_planted.gen_noisy(rng)
        else:
            case = gen_planted.gen(rng, two_bands=True)
        curves_corpus.run_dataset(ctx, PROPERTY, case, 'cli' if i < ncli else 'function', i, nontrivial=nontrivial, with_reference=(i % 4 == 3))


def replay(ctx, case, module=None):
    import numpy as np

    rng = core.make_rng('replay')
    if case.get('kind') == 'collection':
        series = [(np.array(t), np.array(H)) for t, H in case['series']]
        check_collection(ctx, rng, case['step'], series, case)
    elif case.get('kind') == 'head_mapping':
        ctx.rec.inconclusive_because('relabelling cases regenerate from the seed; rerun the tier')
    else:
        curves_corpus.run_dataset(ctx, PROPERTY, case, 'function', 0, nontrivial=nontrivial)
