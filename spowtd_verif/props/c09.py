"""C09 -- the reference water level is the origin of the master curve"""

import math
import os
import sqlite3

from .. import core, curves_common, data, gen_planted, oracle_curves

PROPERTY = 'C09'
LEVEL = 'exploration'
SHARDS = {'quick': 4, 'thorough': 16}
STEPS = [1.0, 0.5, 0.1, 0.2, 0.3, 0.25, 2.5, 5.0, 0.7]
RULE = (
    'Planted and noisy datasets (water levels from -1350 to +2400 mm) x grid steps {1, .5, .1, .2, .3, .25, 2.5, 5, '
    '.7} mm x curve kind {rise, recession}: the curve is assembled without a reference (origin must be the highest '
    'level), then re-assembled with -r k*step for the levels k of the curve (quick: <= 16 per combination, thorough: '
    'all up to 250; level 0 always when the curve spans it), passed as the float k*step and, through the CLI, as the decimal text a user would type '
    '("%.10g"); the walker recomputes the master curve from the base tables and requires 0 at level k (1e-6 s / 1e-9 '
    'mm); the curve is also assembled a second time with another reference without clearing anything: refused with the '
    'origin unchanged, or accepted with the origin at the newly requested level.  Off-grid references (k + {.5, .25, .01, .001}) * step must be refused with nothing written.  Non-trivial: '
    '(step, k) with k*step not exactly representable; distinct (kind, step, k) counted.'
)
ASSUMPTIONS = [
    'only levels present in the assembled curve are used as references',
    'harness convenience: the curve tables are emptied between two references on the same classified dataset',
]
SIZES = {'quick': dict(datasets=2, steps=3, levels=16, cli=6), 'thorough': dict(datasets=2, steps=9, levels=250, cli=36)}
REQUIRED = {
    tier: {
        'on-grid-references-accepted-and-origin-checked': 200,
        'off-grid-references-refused': 40,
        'both-curves-assembled-with-the-same-reference-level': 2,
        'references-at-the-exact-starting-level-of-the-highest-interval': 2,
        'on-grid-reference-accepted-after-a-refused-one-on-the-same-connection': 5,
        'default-origin-checked': 10,
        'references-inexact-in-binary': 60,
        'references-via-cli-text': 10,
        'negative-references': 50,
        'repeated-assembly-refused-and-origin-unchanged': 10,
        'references-equal-to-zero': 4,
    }
    for tier in ('quick', 'thorough')
}
MIN_NONTRIVIAL = {'quick': 60, 'thorough': 3000}


def curve_rows(connection, kind):
    table = 'recession_interval' if kind == 'recession' else 'rising_interval'
    return connection.execute('SELECT count(*) FROM {}'.format(table)).fetchone()[0]


def check_combo(ctx, case, kind, gs, rng, max_levels, n_cli, index):
    import spowtd.zeta_grid as zg
    import spowtd.classify as cl

    rec = ctx.rec
    case = dict(case, grid_step=gs)
    connection, _, exc = curves_common.build_dataset(ctx, case, 'function')
    if exc is not None:
        rec.hit('dataset-could-not-be-built')
        if connection is not None:
            connection.close()
        return
    top_level = None
    if index % 3 == 1:
        # a logger that reports whole grid units: the record is shifted so that the interval with the
        # highest initial level starts exactly on a grid level (its own crossing of that level is then
        # at exactly zero depth / time), and that level is among the references tried
        # (highest among the intervals that make it into the curve: assemble once to know them)
        z0 = None
        if curves_common.run_curve(connection, kind) is None:
            table = 'rising_interval' if kind == 'rise' else 'recession_interval'
            (z0,) = connection.execute('SELECT max(w.zeta_mm) FROM {} AS c JOIN water_level AS w ON w.epoch = c.start_epoch'.format(table)).fetchone()
        if z0 is not None:
            top_level = int(math.ceil(z0 / gs))
            delta = top_level * gs - z0
            connection.close()
            target = top_level * gs
            case = dict(case, z=[[t, target if abs(v + delta - target) <= 1e-9 * max(1.0, abs(target)) else v + delta] for t, v in case['z']])
            connection, _, exc = curves_common.build_dataset(ctx, case, 'function')
            if exc is not None:
                rec.hit('dataset-could-not-be-built')
                if connection is not None:
                    connection.close()
                return
            on_level = connection.execute('SELECT count(*) FROM water_level WHERE zeta_mm = ?', (top_level * gs,)).fetchone()[0]
            if on_level:
                rec.hit('datasets-whose-highest-interval-starts-exactly-on-a-grid-level')
            else:
                top_level = None
    exc = curves_common.run_curve(connection, kind)
    if exc is not None:
        key, desc = curves_common.classify_outcome(exc)
        rec.hit(kind + ':' + key)
        connection.close()
        return
    rec.case()
    cache = {}
    findings, stats = oracle_curves.walk_curve(connection, kind, None, None, cache)
    for p, k, w in findings:
        if p == PROPERTY:
            rec.violation('default-origin:' + k, w, case, 'combo:' + kind)
    if not any(p == PROPERTY for p, _, _ in findings):
        rec.hit('default-origin-checked')
    levels = stats['levels']
    if len(levels) > max_levels:
        picked = sorted(set([levels[0], levels[-1]] + rng.sample(levels, max_levels - 2)))
        # level 0 (reference "0") and its neighbours are always tried when the curve has them
        picked = sorted(set(picked) | ({-1, 0, 1} & set(levels)))
    else:
        picked = levels
    if top_level is not None and top_level in levels:
        picked = sorted(set(picked) | {top_level})
        rec.hit('references-at-the-exact-starting-level-of-the-highest-interval')
    db = None
    if n_cli:
        db = os.path.join(ctx.workdir, 'c09-{}.sqlite3'.format(index))
        if os.path.exists(db):
            os.remove(db)
        disk = sqlite3.connect(db)
        connection.backup(disk)
        disk.close()
    for j, k in enumerate(picked):
        rec.case()
        ref = k * gs
        via_cli = db is not None and (j < n_cli or k == 0)
        curves_common.clear_curve(connection, kind)
        if via_cli:
            disk = sqlite3.connect(db)
            curves_common.clear_curve(disk, kind)
            disk.close()
            text = '{:.10g}'.format(ref)
            if k == 0 and rng.random() < 0.5:
                text = rng.choice(['0', '-0.0', '0e0', '0.0'])
            # argparse would take "-12.5" for an option: pass as -r=-12.5
            status, exc = data.cli([kind, db, '--reference-zeta-mm={}'.format(text)])
            if exc is None and status != 0:
                exc = RuntimeError('exit status {}'.format(status))
            target = sqlite3.connect(db)
            rec.hit('references-via-cli-text')
        else:
            exc = curves_common.run_curve(connection, kind, ref)
            target = connection
        witness = {'kind': kind, 'grid_step_mm': gs, 'level': k, 'reference_mm': ref, 'via': 'cli' if via_cli else 'function'}
        if exc is not None:
            key, desc = curves_common.classify_outcome(exc)
            if desc['origin'] == 'harness':
                rec.inconclusive_because('harness exception: {}'.format(desc))
            else:
                witness['exception'] = desc
                rec.violation('on-grid-reference-refused' if key == 'refusal:reference-off-grid' else 'on-grid-reference-fails:' + key,
                              witness, dict(case, reference_level=k, curve=kind), 'combo:' + kind)
        else:
            f2, _ = oracle_curves.walk_curve(target, kind, k, None, cache)
            bad = [(p, kk, w) for p, kk, w in f2 if p == PROPERTY]
            for p, kk, w in bad:
                rec.violation(kk, dict(witness, detail=w), dict(case, reference_level=k, curve=kind), 'combo:' + kind)
            if not bad:
                rec.hit('on-grid-references-accepted-and-origin-checked')
        if via_cli:
            target.close()
        if ref < 0:
            rec.hit('negative-references')
        if k == 0:
            rec.hit('references-equal-to-zero')
        import fractions
        if fractions.Fraction(ref) != fractions.Fraction(k) * fractions.Fraction(str(gs)):
            rec.hit('references-inexact-in-binary')
            rec.mark_nontrivial('{}|{}|{}'.format(kind, gs, k))
        if len(rec.samples) < 3 and j == 1:
            rec.sample(witness)
    # the user assembles the curve again with another reference on the same
    # dataset (nothing is cleared): either the command is refused and the
    # origin stays where it was, or it is accepted and the origin moves
    if len(levels) >= 2:
        for _ in range(2):
            k1, k2 = rng.sample(levels, 2)
            rec.case()
            curves_common.clear_curve(connection, kind)
            if curves_common.run_curve(connection, kind, k1 * gs) is not None:
                continue
            exc = curves_common.run_curve(connection, kind, k2 * gs if rng.random() < 0.7 else None)
            expect = k1 if exc is not None else (k2 if exc is None else k1)
            if exc is None and expect == k2:
                # accepted: origin must be at k2 (or at the top when no reference was given)
                pass
            f3, st3 = oracle_curves.walk_curve(connection, kind, k1 if exc is not None else None, None, cache)
            if exc is not None:
                rec.hit('repeated-assembly-refused-and-origin-unchanged')
                bad = [(p, kk, w) for p, kk, w in f3 if p == PROPERTY]
            else:
                rec.hit('repeated-assembly-accepted')
                # which origin was requested the second time?
                bad = []
                avg_zero = [kk for p, kk, w in oracle_curves.walk_curve(connection, kind, k2, None, cache)[0] if p == PROPERTY]
                avg_top = [kk for p, kk, w in f3 if p == PROPERTY]
                if avg_zero and avg_top:
                    bad = [(PROPERTY, 'second-assembly-accepted-but-origin-not-at-the-requested-level', {'first_reference_level': k1, 'second_reference_level': k2})]
            for p, kk, w in bad:
                rec.violation('repeated-assembly:' + kk, dict(w, kind=kind, grid_step_mm=gs, levels=[k1, k2]), dict(case, curve=kind), 'combo:' + kind)
    # off-grid references
    for frac in (0.5, 0.25, 0.01, 0.001):
        k = rng.choice(levels)
        ref = (k + frac) * gs
        rec.case()
        curves_common.clear_curve(connection, kind)
        exc = curves_common.run_curve(connection, kind, ref)
        if exc is None:
            rec.violation('off-grid-reference-accepted', {'kind': kind, 'grid_step_mm': gs, 'reference_mm': ref, 'fraction_of_step': frac},
                          dict(case, off_grid_reference=ref, curve=kind), 'combo:' + kind)
            continue
        key, desc = curves_common.classify_outcome(exc)
        if key == 'refusal:reference-off-grid' and curve_rows(connection, kind) == 0:
            rec.hit('off-grid-references-refused')
            if frac == 0.25:
                # library use: the caller catches the refusal and asks again on the same connection
                # (no rollback in between) with a multiple of the step -- which must be accepted
                curves_common.run_curve(connection, kind, ref, rollback=False)
                k_ok = rng.choice(levels)
                exc2 = curves_common.run_curve(connection, kind, k_ok * gs, rollback=False)
                if exc2 is not None:
                    key2, desc2 = curves_common.classify_outcome(exc2)
                    if key2 != 'refusal:reference-level-not-in-curve':
                        rec.violation('on-grid-reference-refused-after-a-refused-off-grid-reference:' + key2,
                                      {'exception': desc2, 'refused_reference_mm': ref, 'reference_mm': k_ok * gs, 'kind': kind},
                                      dict(case, off_grid_reference=ref, curve=kind), 'combo:' + kind)
                    connection.rollback()
                else:
                    connection.commit()
                    bad = [kk for p, kk, w in oracle_curves.walk_curve(connection, kind, k_ok, None)[0] if p == PROPERTY]
                    if bad:
                        rec.violation('after-a-refused-off-grid-reference:' + bad[0], {'refused_reference_mm': ref, 'reference_mm': k_ok * gs, 'kind': kind},
                                      dict(case, off_grid_reference=ref, curve=kind), 'combo:' + kind)
                    else:
                        rec.hit('on-grid-reference-accepted-after-a-refused-one-on-the-same-connection')
        elif desc['origin'] == 'harness':
            rec.inconclusive_because('harness exception: {}'.format(desc))
        else:
            rec.violation('off-grid-reference-not-cleanly-refused:' + key, {'exception': desc, 'reference_mm': ref, 'rows_left': curve_rows(connection, kind)},
                          dict(case, off_grid_reference=ref, curve=kind), 'combo:' + kind)
    # both curves of one dataset with the same reference level (a user who wants both origins at,
    # say, the peat surface): each multiple of the step is accepted for each curve
    if kind == 'rise' and index % 2 == 0:
        other = 'recession'
        curves_common.clear_curve(connection, kind)
        curves_common.clear_curve(connection, other)
        if curves_common.run_curve(connection, other) is None:
            connection.commit()
            table = 'recession_interval_zeta'
            common = sorted(set(levels) & {r[0] for r in connection.execute('SELECT DISTINCT zeta_number FROM {}'.format(table))})
            curves_common.clear_curve(connection, other)
            if common:
                k = rng.choice(common)
                for which in rng.sample([kind, other], 2):
                    rec.case()
                    exc = curves_common.run_curve(connection, which, k * gs)
                    if exc is not None:
                        key, desc = curves_common.classify_outcome(exc)
                        rec.violation('on-grid-reference-refused-when-the-other-curve-has-the-same-reference:' + key,
                                      {'exception': desc, 'reference_mm': k * gs, 'curve': which}, dict(case, curve=which), 'combo:' + kind)
                        break
                    connection.commit()
                    bad = [kk for p, kk, w in oracle_curves.walk_curve(connection, which, k, None)[0] if p == PROPERTY]
                    if bad:
                        rec.violation('same-reference-for-both-curves:' + bad[0], {'reference_mm': k * gs, 'curve': which}, dict(case, curve=which), 'combo:' + kind)
                        break
                else:
                    rec.hit('both-curves-assembled-with-the-same-reference-level')
    connection.close()
    if db and os.path.exists(db):
        os.remove(db)


def run(ctx):
    s = SIZES[ctx.tier]
    rng = ctx.rng('c09')
    combos = 0
    for d in range(s['datasets']):
        # the first dataset of every shard spans level 0, so that a reference of exactly 0 mm is exercised
        case = gen_planted.gen(rng) if d % 2 == 0 else gen_planted.gen_noisy(rng)
        if d == 0:
            zs = sorted(v for _, v in case['z'])
            shift = -round(zs[len(zs) // 2])
            case['z'] = [[t, v + shift] for t, v in case['z']]
            case['truth'] = [dict(tr, R=[r + shift for r in tr['R']]) for tr in case['truth']]
        # rotate the step list so that the shards of a run cover all steps
        start = (ctx.shard * s['steps'] + d * 4) % len(STEPS)
        steps = [STEPS[(start + i) % len(STEPS)] for i in range(s['steps'])]
        for gs in steps:
            for kind in ('rise', 'recession'):
                check_combo(ctx, case, kind, gs, rng, s['levels'], max(1, s['cli'] // (s['datasets'] * s['steps'])), combos)
                combos += 1
                ctx.rec.hit('step:{}'.format(gs))


def replay(ctx, case, module=None):
    import spowtd  # noqa: F401

    rng = core.make_rng('replay')
    kind = case.get('curve', 'recession')
    gs = case['grid_step']
    connection, _, exc = curves_common.build_dataset(ctx, case, 'function')
    if exc is not None:
        ctx.rec.inconclusive_because('dataset could not be built')
        return
    ctx.rec.case()
    if 'reference_level' in case:
        k = case['reference_level']
        exc = curves_common.run_curve(connection, kind, k * gs)
        if exc is not None:
            key, desc = curves_common.classify_outcome(exc)
            ctx.rec.violation('on-grid-reference-refused' if key == 'refusal:reference-off-grid' else 'on-grid-reference-fails:' + key, {'exception': desc}, None)
            return
        f2, _ = oracle_curves.walk_curve(connection, kind, k)
        for p, kk, w in f2:
            if p == PROPERTY:
                ctx.rec.violation(kk, w, None)
    elif 'off_grid_reference' in case:
        exc = curves_common.run_curve(connection, kind, case['off_grid_reference'])
        if exc is None:
            ctx.rec.violation('off-grid-reference-accepted', {'reference_mm': case['off_grid_reference']}, None)
    else:
        check_combo(ctx, case, kind, gs, rng, 24, 0, 0)
