"""C10 -- loaded series reproduce the sources on one uniform grid"""

import datetime
import io
import os
import sqlite3

from .. import core, data, oracle_load

PROPERTY = 'C10'
LEVEL = 'exploration'
SHARDS = {'quick': 4, 'thorough': 16}
RULE = (
    'G-load triples of CSV texts: 3-400 rainfall rows on steps 600/900/1200/1800/3600 s, water level on the same or '
    'a different step (300-3600 s), aligned or offset by a fraction of a step, starting / ending before, with or '
    'after the rainfall record, 0-4 gaps anywhere (also before the first and after the last grid instant, gaps '
    'shorter than a grid step, isolated samples), ET record wider than the span, rows shuffled, BOM (CLI), CRLF line ends, no final newline, numbers in exponent / integer / space-padded form; zones UTC '
    'and fixed offsets.  Loaded by the real load_data (function) and `spowtd load` (CLI).  Walker recomputes from the '
    'generated rows, with own timestamp arithmetic and bisect: grid instants, rainfall / ET rows, interpolated water '
    'levels (1e-12 relative), absence of values and labels strictly inside source gaps, distinct labels per stretch.  '
    'Non-trivial: >= 1 grid instant inside a gap and >= 1 interpolated (non-coincident) instant; distinct by '
    '(steps, offsets, gap positions).'
)
ASSUMPTIONS = [
    'a source step larger than the smallest source step is a gap (the definition the property and the code share)',
    'the closing grid instant carries no water level; its label is not constrained',
]
SIZES = {'quick': dict(n=8000, cli=80), 'thorough': dict(n=120000, cli=1600)}
REQUIRED = {
    tier: {
        'loads-accepted-and-walked': 1000,
        'instants-interpolated': 2000,
        'instants-inside-gaps': 500,
        'instants-coincident': 2000,
        'cases-misaligned-water-level': 200,
        'cases-different-water-level-step': 200,
        'cases-shuffled-rows': 200,
        'cases-with-gap': 500,
        'cases-with-a-logger-restarted-on-another-clock': 100,
        'cases-with-evapotranspiration-logged-between-grid-instants': 100,
        'loads-via-cli-with-bom': 10,
        'loads-via-subprocess': 2,
        'cases-fixed-offset-zone': 100,
        'cases-with-crlf-line-ends': 100,
        'cases-with-other-number-formats': 100,
        'cases-before-or-straddling-1970': 100,
        'gaps-without-a-grid-instant-inside': 50,
    }
    for tier in ('quick', 'thorough')
}
MIN_NONTRIVIAL = {'quick': 300, 'thorough': 5000}
T0 = datetime.datetime(2021, 3, 1)
ORIGINS = [datetime.datetime(2021, 3, 1), datetime.datetime(2021, 3, 1), datetime.datetime(1969, 12, 31, 20), datetime.datetime(1958, 7, 1), datetime.datetime(2037, 12, 1), datetime.datetime(2041, 3, 1), datetime.datetime(2106, 2, 6, 12)]
ZONES = {'UTC': 0, 'Etc/GMT-7': 7 * 3600, 'Etc/GMT+3': -3 * 3600, 'Etc/GMT-12': 12 * 3600}


def gen(rng):
    rstep = rng.choice([600, 900, 1200, 1800, 3600, 600, 900, 1200, 1800, 3600, 60, 3900, 86400])
    zstep = rng.choice([rstep, rstep, rstep, 300, 600, 1200, 1800, 3600, 900])
    n = rng.randint(3, 40) if rng.random() < 0.9 else rng.randint(40, 400)
    if rng.random() < 0.004:
        n = rng.randint(3000, 15000)  # thousands of rows (chunked inserts, batch sizes)
    r0 = rng.randint(-5, 5) * rstep
    rain_t = [r0 + i * rstep for i in range(n)]
    z0 = r0 + rng.choice([0, 0, rstep, -rstep, -3 * rstep, rng.randint(-3, 3) * 300, rng.randint(0, n // 2) * rstep, rng.randint(1, 59) * 60])
    m = rng.randint(2, max(2, int(n * rstep / zstep) + 3))
    zt = [z0 + i * zstep for i in range(m)]
    ngaps = rng.choice([0, 0, 1, 2, 3, 4])
    gapped = False
    for _ in range(ngaps):
        if len(zt) > 3:
            i = rng.randint(1, len(zt) - 2)
            k = rng.randint(1, 3)
            if zstep < rstep and rng.random() < 0.5:
                # a single missing off-grid reading: a gap of the source record
                # with no grid instant strictly inside it
                offgrid = [j for j in range(1, len(zt) - 1) if (zt[j] - r0) % rstep != 0]
                if offgrid:
                    i, k = rng.choice(offgrid), 1
            del zt[i:i + k]
            gapped = True
    restarted = False
    if len(zt) >= 6 and rng.random() < 0.2:
        # the logger is restarted after an outage on a clock of its own: every reading after the
        # gap is offset from the earlier ones (and, when they were on the rainfall grid, from that)
        i = rng.randint(2, len(zt) - 3)
        k = rng.randint(1, 3)
        offset = rng.choice([60, 300, 420, 17, max(1, zstep // 2), max(1, zstep // 3)])
        zt = zt[:i] + [t + k * zstep + offset for t in zt[i:]]
        gapped = restarted = True
    if len(zt) < 2:
        zt = [z0, z0 + zstep]
    et_t = [r0 + (i - 2) * rstep for i in range(n + 5)]
    rain = [(t, round(rng.choice([0, 0, rng.uniform(0, 20)]), 3)) for t in rain_t]
    et = [(t, round(rng.uniform(0, 0.5), 4)) for t in et_t]
    finer_et = False
    if rstep % 3 == 0 and rng.random() < 0.2:
        # a weather station logging faster than the rain gauge: ET rows between the grid instants too
        sub = rstep // rng.choice([2, 3]) if rstep % 2 == 0 else rstep // 3
        et = sorted(set(et) | {(t + k * sub, round(rng.uniform(0.5, 1.0), 4)) for t in et_t for k in range(1, rstep // sub)})
        finer_et = True
    z = [(t, round(rng.uniform(-500, 100), 2)) for t in zt]
    flags = {'misaligned': (z0 - r0) % rstep != 0, 'zstep_differs': zstep != rstep, 'gapped': gapped, 'shuffled': False, 'restarted': restarted, 'finer_et': finer_et}
    for L in (rain, et, z):
        if rng.random() < 0.3:
            rng.shuffle(L)
            flags['shuffled'] = True
    zone = rng.choice(['UTC', 'UTC', 'Etc/GMT-7', 'Etc/GMT+3', 'Etc/GMT-12'])
    return {'kind': 'load', 'rstep': rstep, 'zstep': zstep, 'rain': rain, 'et': et, 'z': z, 'tz': zone, 'flags': flags,
            'origin': rng.randrange(len(ORIGINS)),
            'fmt': {'eol': rng.choice(['\n', '\n', '\r\n']), 'final_newline': rng.random() < 0.8,
                    'numbers': rng.choice(['repr', 'repr', 'exponent', 'integer-when-whole', 'trailing-space'])}}


def _number_text(v, style):
    if style == 'exponent':
        return '{:.17e}'.format(v)
    if style == 'integer-when-whole' and float(v).is_integer():
        return str(int(v))
    if style == 'trailing-space':
        return repr(v) + ' '
    return repr(v)


def text_of(rows, header='Datetime,value', t0=None, fmt=None):
    """CSV text; fmt: line end ('\\n' / '\\r\\n'), final newline or not, number style --
    all variants that the loader accepts as the same data"""
    t0 = t0 or T0
    fmt = fmt or {}
    eol = fmt.get('eol', '\n')
    style = fmt.get('numbers', 'repr')
    lines = [header] + ['{},{}'.format((t0 + datetime.timedelta(seconds=t)).strftime(data.FMT), _number_text(v, style)) for t, v in rows]
    text = eol.join(lines)
    return text + (eol if fmt.get('final_newline', True) else '')


def to_epoch(sec, zone, t0=None):
    """epoch of local naive time t0 + sec in a fixed-offset zone (own arithmetic)"""
    return int(((t0 or T0) + datetime.timedelta(seconds=sec) - data.EPOCH0).total_seconds()) - ZONES[zone]


def check_case(ctx, case, via='function', index=0):
    import spowtd.load as load_mod

    rec = ctx.rec
    rec.case()
    zone = case['tz']
    t0 = ORIGINS[case.get('origin', 0)]
    fmt = case.get('fmt')
    p, e, z = text_of(case['rain'], t0=t0, fmt=fmt), text_of(case['et'], t0=t0, fmt=fmt), text_of(case['z'], t0=t0, fmt=fmt)
    if fmt and fmt.get('eol') == '\r\n':
        rec.hit('cases-with-crlf-line-ends')
    if fmt and fmt.get('numbers') != 'repr':
        rec.hit('cases-with-other-number-formats')
    if t0.year < 1971:
        rec.hit('cases-before-or-straddling-1970')
    if via == 'function':
        # library use: the caller's connection may be a file or in memory, may carry a row
        # factory, and logging may be configured at DEBUG
        if index % 4 == 1:
            dbf = os.path.join(ctx.workdir, 'lf{}.sqlite3'.format(index))
            if os.path.exists(dbf):
                os.remove(dbf)
            connection = sqlite3.connect(dbf)
            rec.hit('function-loads-into-a-file-database')
        else:
            connection = sqlite3.connect(':memory:')
        if index % 5 == 2:
            connection.row_factory = sqlite3.Row
            rec.hit('function-loads-on-a-connection-with-a-row-factory')
        try:
            if index % 7 == 3:
                rec.hit('function-loads-with-logging-at-debug')
                with data.library_logging('DEBUG'):
                    load_mod.load_data(connection, io.StringIO(p, newline=''), io.StringIO(e, newline=''), io.StringIO(z, newline=''), zone)
            else:
                load_mod.load_data(connection, io.StringIO(p, newline=''), io.StringIO(e, newline=''), io.StringIO(z, newline=''), zone)
            exc = None
        except Exception as err:  # pylint: disable=broad-except
            exc = err
        connection.row_factory = None
    else:
        paths = []
        for name, text in (('p', p), ('e', e), ('z', z)):
            path = os.path.join(ctx.workdir, 'l{}_{}.txt'.format(index, name))
            with open(path, 'w', encoding='utf-8-sig' if index % 2 == 0 else 'utf-8', newline='') as f:
                f.write(text)
            paths.append(path)
        db = os.path.join(ctx.workdir, 'l{}.sqlite3'.format(index))
        if os.path.exists(db):
            os.remove(db)
        argv = ['load', db, '-p', paths[0], '-e', paths[1], '-z', paths[2], '--timezone', zone]
        if via == 'subprocess':
            # a real command: fresh interpreter, bin/spowtd, files opened and closed by the process itself
            import subprocess
            import sys
            env = dict(os.environ)
            env['PYTHONPATH'] = core.REPO
            if os.environ.get('SPOWTD_VERIF_OPTIMIZE') == '1':
                env['PYTHONOPTIMIZE'] = '1'
            pr = subprocess.run([sys.executable, '-B', os.path.join(core.REPO, 'bin', 'spowtd')] + argv, env=env, capture_output=True, text=True, timeout=600)
            status, exc = pr.returncode, None
            if status != 0:
                exc = RuntimeError('exit status {}: {}'.format(status, pr.stderr.strip().splitlines()[-1] if pr.stderr.strip() else ''))
            rec.hit('loads-via-subprocess')
        else:
            status, exc = data.cli(argv)
            if exc is None and status != 0:
                exc = RuntimeError('exit status {}'.format(status))
        connection = sqlite3.connect(db)
    try:
        if exc is not None:
            desc = core.describe_exception(exc)
            if desc['origin'] == 'harness' and via == 'function':
                rec.inconclusive_because('harness exception in load: {}'.format(desc))
                return
            # domain: >= 2 rainfall instants inside the water-level span, uniform, ET present
            zt = sorted(t for t, _ in case['z'])
            inspan = [t for t, _ in case['rain'] if zt[0] <= t <= zt[-1]]
            if len(inspan) < 2:
                rec.hit('refused: fewer than two rainfall instants inside the water-level span')
                return
            rec.violation('valid-input-refused:' + desc['type'], {'exception': desc}, case, 'load')
            return
        rain = [(to_epoch(t, zone, t0), v) for t, v in case['rain']]
        et = [(to_epoch(t, zone, t0), v) for t, v in case['et']]
        zz = [(to_epoch(t, zone, t0), v) for t, v in case['z']]
        findings, stats = oracle_load.walk(connection, rain, et, zz, case['rstep'], zone)
        rec.hit('loads-accepted-and-walked')
        if via in ('cli', 'subprocess'):
            rec.hit('loads-via-cli-with-bom' if index % 2 == 0 else 'loads-via-cli')
        for name, n in stats.items():
            if name != 'nontrivial':
                rec.hit(name, n)
        fl = case['flags']
        for name, label in (('misaligned', 'cases-misaligned-water-level'), ('zstep_differs', 'cases-different-water-level-step'),
                            ('shuffled', 'cases-shuffled-rows'), ('gapped', 'cases-with-gap'), ('restarted', 'cases-with-a-logger-restarted-on-another-clock'), ('finer_et', 'cases-with-evapotranspiration-logged-between-grid-instants')):
            if fl.get(name):
                rec.hit(label)
        if zone != 'UTC':
            rec.hit('cases-fixed-offset-zone')
        for k, w in findings:
            rec.violation(k, w, case, 'load')
        if stats.get('nontrivial'):
            zt = sorted(t for t, _ in case['z'])
            rec.mark_nontrivial(core.digest((case['rstep'], case['zstep'], zt[0] - min(t for t, _ in case['rain']), [b - a for a, b in zip(zt, zt[1:])][:40])))
            rec.sample({'rain_step_s': case['rstep'], 'water_level_step_s': case['zstep'], 'zone': zone,
                        'rain_rows': len(case['rain']), 'water_level_rows': len(case['z']),
                        'water_level_times_s': sorted(t for t, _ in case['z'])[:12], 'first_rain_time_s': min(t for t, _ in case['rain']),
                        'gap_instants': stats.get('instants-inside-gaps'), 'interpolated_instants': stats.get('instants-interpolated')})
    finally:
        connection.close()


def run(ctx):
    s = SIZES[ctx.tier]
    rng = ctx.rng('load')
    n = ctx.share(s['n'])
    ncli = ctx.share(s['cli'])
    for i in range(n):
        check_case(ctx, gen(rng), 'subprocess' if i < 2 else ('cli' if i < ncli else 'function'), i)


def replay(ctx, case, module=None):
    case['rain'] = [tuple(r) for r in case['rain']]
    case['et'] = [tuple(r) for r in case['et']]
    case['z'] = [tuple(r) for r in case['z']]
    check_case(ctx, case, 'function', 0)
    check_case(ctx, case, 'cli', 1)
