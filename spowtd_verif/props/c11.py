"""C11 -- exact timestamp conversion; bad input refused"""

import datetime
import io
import os
import sqlite3

from .. import core, data
from . import c10

PROPERTY = 'C11'
LEVEL = 'exploration'
SHARDS = {'quick': 4, 'thorough': 16}
RULE = (
    '(a) All pytz zones x random local datetimes 1900-2037 at whole seconds (half of them in years where the zone\'s '
    'local mean time or an older standard offset applied; DST zones within hours of their transitions; ambiguous '
    'local times allowed, non-existent ones excluded by the forward map) handed to the real '
    'generate_timestamped_rows and, for a sample, through `spowtd load` into the staging tables.  Oracle: pytz\'s '
    'UTC->local map (fromtimestamp(utc).astimezone(tz), a different code path from localize) must print the original '
    'text; zoneinfo as a second opinion where both databases give the same offset.  (b) Malformed variants of valid '
    'G-load triples: one rainfall row removed or displaced inside the span, one ET row removed for a grid step, the ET record ending early / starting late, displaced '
    'off the grid, or removed while extra off-grid readings keep the row count up, a '
    'second load into the populated dataset -- each must raise / exit non-zero, leave every gridded table empty '
    '(resp. the populated dataset byte-for-byte unchanged in its logical dump); the unmodified triple is loaded as a '
    'control.  Non-trivial: zone whose LMT offset differs from the offset at the datetime or a DST-observing zone; '
    'distinct (zone, offset) pairs counted.'
)
ASSUMPTIONS = [
    '"rendering in that zone" is relative to the zone database pytz ships',
    'refusal of ET missing only at the closing instant is stricter than the property and is not tested either way',
]
SIZES = {'quick': dict(ts=36000, staged=16, bad=320, batches=240), 'thorough': dict(ts=1200000, staged=300, bad=8000, batches=8000)}
REQUIRED = {
    tier: {
        'timestamps-checked': 10000,
        'same-text-in-another-zone': 500,
        'zones-covered': 400,
        'timestamps-in-lmt-or-older-offset-era': 2000,
        'timestamps-near-dst-transition': 1000,
        'ambiguous-local-times': 20,
        'nonexistent-local-times-excluded': 20,
        'staged-loads-checked': 4,
        'refused:rain-row-removed': 20,
        'refused:rain-row-displaced': 20,
        'refused:et-row-removed': 20,
        'refused:et-row-displaced': 20,
        'refused:et-row-removed-extra-rows-elsewhere': 20,
        'refused:et-record-ends-early': 20,
        'controls-with-stored-instants-compared': 50,
        'refused:et-record-starts-late': 20,
        'refused:second-load': 20,
        'controls-accepted': 50,
        'files-spanning-two-utc-offsets': 100,
        'retries-on-the-same-connection': 10,
    }
    for tier in ('quick', 'thorough')
}
MIN_NONTRIVIAL = {'quick': 400, 'thorough': 1500}
GRIDDED = ['time_grid', 'grid_time', 'rainfall_intensity', 'evapotranspiration', 'water_level']


def forward(epoch, tz):
    import pytz
    return datetime.datetime.fromtimestamp(epoch, pytz.utc).astimezone(tz)


def candidate_epochs(naive, tz):
    """All epochs whose rendering in tz is the naive local time (0, 1 or 2)"""
    offsets = set()
    info = getattr(tz, '_transition_info', None)
    if info:
        for off, _, _ in info:
            offsets.add(off)
    else:
        offsets.add(tz.utcoffset(naive))
    out = []
    base = (naive - data.EPOCH0)
    for off in offsets:
        e = int((base - off).total_seconds())
        if forward(e, tz).replace(tzinfo=None) == naive:
            out.append(e)
    return sorted(set(out))


def gen_datetime(rng, tz):
    mode = rng.random()
    trans = getattr(tz, '_utc_transition_times', None)
    if trans and mode < 0.45 and len(trans) > 1:
        # near a transition (DST or historical change)
        t = rng.choice(trans[1:])
        if t.year < 1900 or t.year > 2037:
            t = datetime.datetime(rng.randint(1901, 2037), rng.randint(1, 12), rng.randint(1, 28))
        off = tz.utcoffset(t + datetime.timedelta(days=2), is_dst=False) if hasattr(tz, 'utcoffset') else datetime.timedelta(0)
        try:
            local = t + (off or datetime.timedelta(0))
        except OverflowError:
            local = t
        naive = local + datetime.timedelta(seconds=rng.randint(-3 * 3600, 3 * 3600))
        return naive.replace(microsecond=0), 'near-transition'
    if mode < 0.7:
        year = rng.randint(1900, 1969)
    else:
        year = rng.randint(1970, 2037)
    naive = datetime.datetime(year, rng.randint(1, 12), rng.randint(1, 28), rng.randint(0, 23), rng.randint(0, 59), rng.randint(0, 59))
    return naive, 'random'


def check_timestamps(ctx, rng, n):
    import pytz
    import spowtd.load as load_mod
    try:
        import zoneinfo
    except ImportError:  # pragma: no cover
        zoneinfo = None

    rec = ctx.rec
    zones = list(pytz.all_timezones)
    seen_zones = set()
    for i in range(n):
        name = zones[(i * ctx.nshards + ctx.shard) % len(zones)] if i < len(zones) * 2 else rng.choice(zones)
        tz = pytz.timezone(name)
        naive, how = gen_datetime(rng, tz)
        if naive.year < 1900 or naive.year > 2037:
            continue
        text = naive.strftime(data.FMT)
        rec.case()
        cands = candidate_epochs(naive, tz)
        if not cands:
            rec.hit('nonexistent-local-times-excluded')
            continue
        if len(cands) > 1:
            rec.hit('ambiguous-local-times')
        case = {'kind': 'timestamp', 'zone': name, 'text': text}
        try:
            rows = list(load_mod.generate_timestamped_rows([[text, '1.5']], tz))
        except Exception as exc:  # pylint: disable=broad-except
            desc = core.describe_exception(exc)
            if desc['origin'] == 'harness':
                rec.inconclusive_because('harness exception: {}'.format(desc))
                continue
            rec.violation('existing-local-time-refused:' + desc['type'], {'exception': desc, 'zone': name, 'text': text}, case, 'timestamp')
            continue
        epoch = rows[0][0]
        rendered = forward(epoch, tz).strftime(data.FMT) if isinstance(epoch, int) else None
        if rendered != text or rows[0][1:] != ['1.5']:
            rec.violation('stored-instant-does-not-render-as-the-original-text',
                          {'zone': name, 'text': text, 'epoch': epoch, 'rendering': rendered, 'admissible_epochs': cands, 'row': rows[0]}, case, 'timestamp')
            continue
        rec.hit('timestamps-checked')
        seen_zones.add(name)
        if how == 'near-transition':
            rec.hit('timestamps-near-dst-transition')
        off_then = forward(epoch, tz).utcoffset()
        off_now = forward(1700000000, tz).utcoffset()
        if off_then != off_now:
            rec.hit('timestamps-in-lmt-or-older-offset-era')
            rec.mark_nontrivial('{}|{}'.format(name, int(off_then.total_seconds())))
        elif getattr(tz, '_utc_transition_times', None) and len(tz._utc_transition_times) > 4:
            rec.mark_nontrivial('{}|{}'.format(name, int(off_then.total_seconds())))
        if zoneinfo is not None and i % 7 == 0:
            try:
                zi = zoneinfo.ZoneInfo(name)
                r2 = datetime.datetime.fromtimestamp(epoch, zi)
                if r2.utcoffset() == off_then:
                    rec.hit('zoneinfo-agrees')
                else:
                    rec.hit('zoneinfo-database-differs (not decisive)')
            except Exception:  # pylint: disable=broad-except
                rec.hit('zoneinfo-has-no-such-zone')
        if i % 10 == 0:
            # the same text declared in other zones straight afterwards (one process, as a
            # script looping over sites would do): each zone must get its own instant
            for other in rng.sample(zones, 2):
                tz2 = pytz.timezone(other)
                c2 = candidate_epochs(naive, tz2)
                if not c2:
                    continue
                try:
                    e2 = list(load_mod.generate_timestamped_rows([[text, '1.5']], tz2))[0][0]
                except Exception:  # pylint: disable=broad-except
                    continue
                rec.hit('same-text-in-another-zone')
                if e2 not in c2:
                    rec.violation('stored-instant-does-not-render-as-the-original-text',
                                  {'zone': other, 'text': text, 'epoch': e2, 'admissible_epochs': c2, 'previous_zone': name}, {'kind': 'timestamp', 'zone': other, 'text': text}, 'timestamp')
                    break
        if len(rec.samples) < 3 and off_then != off_now:
            rec.sample({'zone': name, 'text': text, 'epoch': epoch, 'offset_then_s': off_then.total_seconds(), 'offset_now_s': off_now.total_seconds()})
    rec.hit('zones-covered', len(seen_zones))


def check_batches(ctx, rng, n):
    """Whole files in one call: rows whose first and last timestamps share an
    offset while rows in between (or in any order) have another one"""
    import pytz
    import spowtd.load as load_mod

    rec = ctx.rec
    dst_zones = ['Europe/London', 'America/New_York', 'Europe/Berlin', 'Australia/Sydney', 'America/Sao_Paulo',
                 'Pacific/Auckland', 'Asia/Tehran', 'America/Santiago', 'Africa/Casablanca', 'Europe/Dublin']
    for i in range(n):
        name = rng.choice(dst_zones)
        tz = pytz.timezone(name)
        year = rng.randint(1975, 2030)
        rec.case()
        # a year of rows at a coarse step, optionally shuffled
        start = datetime.datetime(year, 1, rng.randint(1, 20), rng.randint(0, 23))
        step_h = rng.choice([6, 24, 24 * 7, 1])
        count = rng.randint(20, 120)
        span = 365 * 24 // step_h
        picks = sorted(rng.sample(range(span), min(count, span)))
        naives = [start + datetime.timedelta(hours=k * step_h) for k in picks]
        naives = [t for t in naives if len(candidate_epochs(t, tz)) == 1]
        if len(naives) < 5:
            continue
        if rng.random() < 0.3:
            rng.shuffle(naives)
        rows = [[t.strftime(data.FMT), '0.5'] for t in naives]
        try:
            got = list(load_mod.generate_timestamped_rows(rows, tz))
        except Exception as exc:  # pylint: disable=broad-except
            desc = core.describe_exception(exc)
            rec.violation('existing-local-times-refused:' + desc['type'], {'exception': desc, 'zone': name}, {'kind': 'batch', 'zone': name, 'texts': [r[0] for r in rows]}, 'batch')
            continue
        bad = [(r[0], g[0], forward(g[0], tz).strftime(data.FMT)) for r, g in zip(rows, got) if forward(g[0], tz).strftime(data.FMT) != r[0]]
        offs = {forward(g[0], tz).utcoffset() for g in got}
        if len(got) != len(rows) or bad:
            rec.violation('stored-instant-does-not-render-as-the-original-text',
                          {'zone': name, 'rows': len(rows), 'first_bad_text_epoch_rendering': bad[:3]}, {'kind': 'batch', 'zone': name, 'texts': [r[0] for r in rows]}, 'batch')
            continue
        rec.hit('files-converted-in-one-call')
        if len(offs) > 1:
            rec.hit('files-spanning-two-utc-offsets')


def check_staged(ctx, rng, index):
    """A whole `spowtd load` in a zone with a non-trivial history: staging epochs"""
    import pytz

    rec = ctx.rec
    rec.case()
    name = rng.choice(['Africa/Lagos', 'Asia/Kolkata', 'Asia/Kathmandu', 'America/Caracas', 'Asia/Singapore', 'Australia/Eucla', 'Pacific/Apia', 'Europe/Amsterdam', 'Asia/Jakarta'])
    tz = pytz.timezone(name)
    step = rng.choice([1800, 3600])
    year = rng.choice([1925, 1961, 1985, 2005, 2021])
    t0 = datetime.datetime(year, rng.randint(1, 12), rng.randint(1, 25), rng.randint(0, 23))
    n = rng.randint(6, 30)
    times = [t0 + datetime.timedelta(seconds=i * step) for i in range(n + 1)]
    cands = [candidate_epochs(t, tz) for t in times]
    if any(len(c) != 1 for c in cands) or any(b[0] - a[0] != step for a, b in zip(cands, cands[1:])):
        rec.hit('staged-record-crosses-a-transition (skipped)')
        return
    fmt = lambda rows: 'Datetime,v\n' + ''.join('{},{!r}\n'.format(t.strftime(data.FMT), v) for t, v in rows)
    p = fmt([(t, 1.0) for t in times[:-1]])
    e = fmt([(t, 0.1) for t in times])
    z = fmt([(t, -10.0 - i) for i, t in enumerate(times[:-1])])
    paths = []
    for nm, text in (('p', p), ('e', e), ('z', z)):
        path = os.path.join(ctx.workdir, 's{}_{}.txt'.format(index, nm))
        with open(path, 'w') as f:
            f.write(text)
        paths.append(path)
    db = os.path.join(ctx.workdir, 's{}.sqlite3'.format(index))
    if os.path.exists(db):
        os.remove(db)
    status, exc = data.cli(['load', db, '-p', paths[0], '-e', paths[1], '-z', paths[2], '--timezone', name])
    case = {'kind': 'staged', 'zone': name, 't0': t0.strftime(data.FMT), 'step': step, 'n': n}
    if exc is not None or status != 0:
        rec.violation('valid-load-refused', {'exception': core.describe_exception(exc) if exc else status, 'zone': name}, case, 'staged')
        return
    connection = sqlite3.connect(db)
    got = [r[0] for r in connection.execute('SELECT epoch FROM evapotranspiration_staging ORDER BY epoch')]
    got_grid = [r[0] for r in connection.execute('SELECT epoch FROM grid_time ORDER BY epoch')]
    connection.close()
    exp = [c[0] for c in cands]
    if got != exp or got_grid != exp:
        rec.violation('staged-epochs-differ', {'zone': name, 'got': got[:5], 'expected': exp[:5]}, case, 'staged')
        return
    rec.hit('staged-loads-checked')


def gridded_rows(connection):
    out = {}
    names = {r[0] for r in connection.execute("SELECT name FROM sqlite_master WHERE type='table'")}
    for t in GRIDDED:
        out[t] = connection.execute('SELECT count(*) FROM {}'.format(t)).fetchone()[0] if t in names else 0
    return out


def check_refusals(ctx, rng, index, via):
    import spowtd.load as load_mod

    rec = ctx.rec
    # a valid triple with a comfortable span
    for _ in range(50):
        case = c10.gen(rng)
        zt = sorted(t for t, _ in case['z'])
        inspan = sorted(t for t, _ in case['rain'] if zt[0] <= t <= zt[-1])
        if len(inspan) >= 5:
            break
    else:
        return
    zone = case['tz']

    def attempt(rain, et, z, db=None, label=''):
        p, e, zz = c10.text_of(rain), c10.text_of(et), c10.text_of(z)
        if via == 'function':
            connection = db if db is not None else sqlite3.connect(':memory:')
            try:
                load_mod.load_data(connection, io.StringIO(p), io.StringIO(e), io.StringIO(zz), zone)
                connection.commit()
                return connection, None
            except Exception as exc:  # pylint: disable=broad-except
                connection.rollback()
                return connection, exc
        paths = []
        for nm, text in (('p', p), ('e', e), ('z', zz)):
            path = os.path.join(ctx.workdir, 'b{}{}_{}.txt'.format(index, label, nm))
            with open(path, 'w') as f:
                f.write(text)
            paths.append(path)
        path = db if db is not None else os.path.join(ctx.workdir, 'b{}{}.sqlite3'.format(index, label))
        if db is None and os.path.exists(path):
            os.remove(path)
        status, exc = data.cli(['load', path, '-p', paths[0], '-e', paths[1], '-z', paths[2], '--timezone', zone])
        if exc is None and status != 0:
            exc = RuntimeError('exit status {}'.format(status))
        return path, exc

    def open_(handle):
        return handle if via == 'function' else sqlite3.connect(handle)

    # control
    rec.case()
    handle, exc = attempt(case['rain'], case['et'], case['z'], label='c')
    if exc is not None:
        rec.hit('control-refused (C10 reports it)')
        return
    rec.hit('controls-accepted')
    before = data.dump(open_(handle))
    # the accepted load stored each instant as declared (it may follow refused loads, and loads
    # of the same texts in other zones, in this process)
    stored = [r[0] for r in open_(handle).execute('SELECT epoch FROM grid_time ORDER BY epoch')]
    expected = [c10.to_epoch(t, zone) for t in inspan]
    rec.hit('controls-with-stored-instants-compared')
    if stored[:len(expected)] != expected:
        rec.violation('stored-instant-of-an-accepted-load-is-not-the-declared-local-time',
                      {'zone': zone, 'stored_first': stored[:3], 'expected_first': expected[:3], 'via': via},
                      dict(case, malformation='control'), 'refusal')
        return
    # second load into the populated dataset
    rec.case()
    handle2, exc = attempt(case['rain'], case['et'], case['z'], db=handle, label='c')
    after = data.dump(open_(handle))
    if exc is None:
        rec.violation('second-load-into-populated-dataset-accepted', {'via': via}, dict(case, malformation='second-load'), 'refusal')
    elif after != before:
        rec.violation('refused-second-load-changed-the-dataset', {'tables': [t for t in after if after[t] != before.get(t)]}, dict(case, malformation='second-load'), 'refusal')
    elif core.describe_exception(exc)['origin'] == 'harness' and via == 'function':
        rec.inconclusive_because('harness exception: {}'.format(core.describe_exception(exc)))
    else:
        rec.hit('refused:second-load')
    # malformed variants
    interior = inspan[1:-1]
    victim = rng.choice(interior)
    et_victim = rng.choice(inspan)
    variants = [
        ('rain-row-removed', [r for r in case['rain'] if r[0] != victim], case['et'], case['z']),
        ('rain-row-displaced', [(t + rng.choice([60, -60, 1, case['rstep'] // 2]), v) if t == victim else (t, v) for t, v in case['rain']], case['et'], case['z']),
        ('et-row-removed', case['rain'], [r for r in case['et'] if r[0] != et_victim], case['z']),
        # the row count stays the same: the reading is logged late / mid-step
        ('et-row-displaced', case['rain'], [(t + rng.choice([1, 60, case['rstep'] // 2]), v) if t == et_victim else (t, v) for t, v in case['et']], case['z']),
        # missing at one grid step while extra off-grid readings keep the count up
        ('et-row-removed-extra-rows-elsewhere', case['rain'],
         [r for r in case['et'] if r[0] != et_victim] + [(rng.choice(inspan) + 7, 0.123), (rng.choice(inspan) + 11, 0.321)], case['z']),
    ]
    # the ET record stops before the end of the grid / starts after its beginning (one or many
    # grid steps without ET, all at one end)
    cut = inspan[rng.randint(max(1, len(inspan) - 4), len(inspan) - 1)] if rng.random() < 0.5 else rng.choice(inspan[1:])
    variants.append(('et-record-ends-early', case['rain'], [r for r in case['et'] if r[0] < cut], case['z']))
    cut = inspan[rng.randint(0, min(3, len(inspan) - 2))] if rng.random() < 0.5 else rng.choice(inspan[:-1])
    variants.append(('et-record-starts-late', case['rain'], [r for r in case['et'] if r[0] > cut], case['z']))
    if via == 'function' and index % 3 == 0:
        # library use: a load is refused, the caller keeps the connection (no rollback) and
        # loads another site into it: refused, or exactly that site -- never a merge
        rec.case()
        connection = sqlite3.connect(':memory:')
        name0, rain0, et0, z0 = variants[index % len(variants)]
        try:
            load_mod.load_data(connection, io.StringIO(c10.text_of(rain0)), io.StringIO(c10.text_of(et0)), io.StringIO(c10.text_of(z0)), zone)
            first_failed = False
        except Exception:  # pylint: disable=broad-except
            first_failed = True
        if first_failed:
            other = None
            for _ in range(20):
                cand = c10.gen(rng)
                zt2 = sorted(t for t, _ in cand['z'])
                if len([t for t, _ in cand['rain'] if zt2[0] <= t <= zt2[-1]]) >= 3:
                    other = cand
                    break
            if other is not None:
                # a later period, so that nothing collides with what the first attempt staged
                shift = 400 * 86400
                o_r = [(t + shift, v) for t, v in other['rain']]
                o_e = [(t + shift, v) for t, v in other['et']]
                o_z = [(t + shift, v) for t, v in other['z']]
                try:
                    load_mod.load_data(connection, io.StringIO(c10.text_of(o_r)), io.StringIO(c10.text_of(o_e)), io.StringIO(c10.text_of(o_z)), other['tz'])
                    accepted = True
                except Exception:  # pylint: disable=broad-except
                    accepted = False
                rec.hit('retries-on-the-same-connection')
                if accepted:
                    fresh = sqlite3.connect(':memory:')
                    load_mod.load_data(fresh, io.StringIO(c10.text_of(o_r)), io.StringIO(c10.text_of(o_e)), io.StringIO(c10.text_of(o_z)), other['tz'])
                    if data.dump(connection) != data.dump(fresh):
                        rec.violation('load-after-a-refused-load-merged-leftover-rows', {'first_malformation': name0},
                                      dict(case, malformation='retry-on-same-connection'), 'refusal')
                    else:
                        rec.hit('retries-accepted-without-merge')
                else:
                    rec.hit('retries-refused')
    if via == 'function' and index % 3 == 1:
        # a load dies part-way (a timestamp the format does not allow, '24:00:00', in the ET file,
        # after the rainfall has been staged); the caller keeps the connection and loads the
        # period that follows: refused, or exactly that period -- never merged with the leftovers
        rec.case()
        step_s = case['rstep']
        n1 = rng.randint(6, 20)
        r1 = [(i * step_s, 1.0 + i) for i in range(n1)]
        e1_text = c10.text_of([(i * step_s, 0.1) for i in range(n1)]) + '2021-03-01 24:00:00,0.1\n'
        z1 = [(i * step_s, -10.0 - i) for i in range(n1)]
        connection = sqlite3.connect(':memory:')
        try:
            load_mod.load_data(connection, io.StringIO(c10.text_of(r1)), io.StringIO(e1_text), io.StringIO(c10.text_of(z1)), 'UTC')
            died = False
        except Exception:  # pylint: disable=broad-except
            died = True
        if died:
            n2 = rng.randint(6, 20)
            r2 = [((n1 + i) * step_s, 2.0 + i) for i in range(n2)]
            e2 = [((n1 + i) * step_s, 0.2) for i in range(n2 + 1)]
            z2 = [((n1 - 3 + i) * step_s, -50.0 - i) for i in range(n2 + 3)]  # starts inside the first period
            args = lambda: (io.StringIO(c10.text_of(r2)), io.StringIO(c10.text_of(e2)), io.StringIO(c10.text_of(z2)), 'UTC')
            try:
                load_mod.load_data(connection, *args())
                accepted = True
            except Exception:  # pylint: disable=broad-except
                accepted = False
            rec.hit('retries-on-the-same-connection')
            if accepted:
                fresh = sqlite3.connect(':memory:')
                load_mod.load_data(fresh, *args())
                if data.dump(connection) != data.dump(fresh):
                    rec.violation('load-after-a-refused-load-merged-leftover-rows', {'first_attempt': 'died on a 24:00:00 timestamp in the ET file'},
                                  {'kind': 'retry', 'rstep': step_s, 'n1': n1, 'n2': n2}, 'refusal')
                else:
                    rec.hit('retries-accepted-without-merge')
            else:
                rec.hit('retries-refused')
    for name, rain, et, z in variants:
        rec.case()
        if name == 'et-row-removed' and len(et) == len(case['et']):
            continue
        handle, exc = attempt(rain, et, z, label=name[:2])
        bad = dict(case, malformation=name, rain=rain, et=et, z=z)
        if exc is None:
            rec.violation('malformed-input-accepted:' + name, {'via': via, 'victim_time_s': victim}, bad, 'refusal')
            continue
        desc = core.describe_exception(exc)
        if desc['origin'] == 'harness' and via == 'function':
            rec.inconclusive_because('harness exception: {}'.format(desc))
            continue
        connection = open_(handle)
        rows = gridded_rows(connection)
        if any(rows.values()):
            rec.violation('refused-load-left-gridded-rows-behind:' + name, {'rows': rows, 'via': via}, bad, 'refusal')
        else:
            rec.hit('refused:' + name)
        if via != 'function':
            connection.close()


def run(ctx):
    s = SIZES[ctx.tier]
    check_timestamps(ctx, ctx.rng('timestamps'), ctx.share(s['ts']))
    check_batches(ctx, ctx.rng('batches'), ctx.share(s['batches']))
    rng = ctx.rng('staged')
    for i in range(ctx.share(s['staged'])):
        check_staged(ctx, rng, i)
    rng = ctx.rng('refusals')
    n = ctx.share(s['bad'])
    for i in range(n):
        check_refusals(ctx, rng, i, 'cli' if i % 5 == 0 else 'function')


def replay(ctx, case, module=None):
    import pytz
    import spowtd.load as load_mod

    if case.get('kind') == 'timestamp':
        tz = pytz.timezone(case['zone'])
        ctx.rec.case()
        rows = list(load_mod.generate_timestamped_rows([[case['text'], '1.5']], tz))
        rendered = forward(rows[0][0], tz).strftime(data.FMT)
        if rendered != case['text']:
            ctx.rec.violation('stored-instant-does-not-render-as-the-original-text', {'epoch': rows[0][0], 'rendering': rendered}, None)
    else:
        ctx.rec.inconclusive_because('refusal / staged cases regenerate from the seed; rerun the tier with the same seed')
