"""C12 -- level crossings are exact"""

import math

from .. import core, oracle_regrid

PROPERTY = 'C12'
LEVEL = 'exploration'
SHARDS = {'quick': 4, 'thorough': 16}
RULE = (
    'G-intervals series (2-9 samples; rising, falling, non-monotone, flat pairs; gentle drifts of 1e-9..0.3 levels per sample '
    'around datums up to 1e6 levels; samples exactly on a level as a '
    'local extremum and in passing, one ulp beside a level; abscissae starting at 0, 7.3 and 1.7e9 with regular and '
    'irregular spacing; steps 1, .5, 2, .1, .2, .3, 2.5, 5 and random) handed to the real regrid.regrid; every item '
    'yielded is aligned (sequence alignment, tie-ambiguous levels optional) with the integers k such that k*step '
    'lies in [lo, hi) of each consecutive pair, decided in exact Fraction arithmetic, and each abscissa must lie in '
    'its bracket and on the chord within brentq\'s documented tolerance.  The same oracle is attached as a contract to '
    'regrid.regrid while real rise / recession workflows run on planted and noisy datasets, so every call the pipeline '
    'itself makes is checked.  build_head_mapping: one entry per series and '
    'level, equal to the mean of that series\' crossings.  Non-trivial: series with >= 1 sample exactly on a level '
    'and >= 1 direction change; distinct by (quantised shape, step).'
)
ASSUMPTIONS = [
    'tie band: y/step within 4 eps of an integer and not exactly representable -> either outcome accepted',
    'abscissa residual tolerance: 64 eps max(1,|Y|) + |slope| (2e-12 + 4 eps |x|) * 2 (brentq xtol=2e-12, rtol=4 eps)',
]
SIZES = {'quick': dict(n=10000, hm=500, wf=8), 'thorough': dict(n=400000, hm=16000, wf=320)}
REQUIRED = {
    tier: {
        'regrid-calls': 1000,
        'crossings-must': 10000,
        'series-with-sample-on-level': 500,
        'series-with-one-ulp-beside-level': 200,
        'series-with-flat-pair': 200,
        'series-with-epoch-abscissae': 500,
        'series-nonmonotone': 500,
        'series-gentle-around-a-distant-datum': 500,
        'second-passes-compared': 200,
        'series-in-other-containers-compared': 200,
        'series-with-more-than-1024-samples': 2,
        'head-mappings-with-a-series-of-more-than-1024-samples': 2,
        'integer-typed-series': 200,
        'pairs-falling': 1000,
        'head-mappings-checked': 100,
        'head-mappings-with-identical-ordinates-on-another-clock': 30,
        'empty-series': 1,
        'regrid-calls-made-by-rise': 20,
        'regrid-calls-made-by-recession': 20,
    }
    for tier in ('quick', 'thorough')
}
MIN_NONTRIVIAL = {'quick': 1000, 'thorough': 10000}
STEPS = [1.0, 0.5, 2.0, 0.1, 0.2, 0.3, 2.5, 5.0]


def gen_long_series(rng):
    """A record of more than a thousand samples (one long dry spell): a slow recession with
    small reversals, a few tens to hundreds of level crossings"""
    import numpy as np

    m = rng.randint(1030, 2600)
    dt = rng.choice([1800.0, 3600.0, 600.0])
    x = rng.choice([0.0, 1.7e9]) + np.arange(m) * dt
    step = rng.choice([1.0, 0.5, 2.5, 0.3])
    y = [rng.uniform(-5, 5) * step]
    drift = -step * rng.choice([0.02, 0.05, 0.1])
    for _ in range(m - 1):
        y.append(y[-1] + drift * rng.uniform(0.0, 2.0) + (step * 0.04 * rng.uniform(-1, 1) if rng.random() < 0.2 else 0.0))
    return x, np.array(y, dtype=float), step, {'long'}


def gen_series(rng):
    import numpy as np

    if rng.random() < 0.004:
        return gen_long_series(rng)
    m = rng.randint(2, 9)
    x0 = rng.choice([1.7e9, 0.0, 7.3, float(rng.randint(10 ** 9, 2 * 10 ** 9))])
    dx = rng.choice(['1800', '1200', 'irregular', 'third'])
    incs = []
    for _ in range(m - 1):
        if dx == '1800':
            incs.append(1800.0)
        elif dx == '1200':
            incs.append(1200.0)
        elif dx == 'third':
            incs.append(1 / 3)
        else:
            incs.append(rng.choice([rng.uniform(0.01, 1000), 1800.0, 1200.0, 1 / 3]))
    x = np.cumsum([x0] + incs)
    step = rng.choice(STEPS + [rng.uniform(0.05, 7)])
    shape = rng.choice(['random', 'rising', 'falling', 'random', 'zigzag', 'gentle', 'gentle', 'whole'])
    flags = set()
    if shape == 'whole':
        # whole-number abscissae (epochs) and ordinates (a logger with 1 mm resolution)
        x = np.cumsum([float(int(x0))] + [float(rng.choice([600, 1200, 1800, 3600])) for _ in range(m - 1)])
        y = [float(rng.randint(-400, 100))]
        for _ in range(m - 1):
            y.append(y[-1] + float(rng.choice([-3, -2, -1, -1, 0, 1, 4])))
        flags.add('on-level')
        return x, np.array(y), rng.choice([1.0, 2.0, 0.5, 5.0, 2.5]), flags
    if shape == 'gentle':
        # ordinates that are large compared with the per-sample change: a level
        # referred to a distant datum with a slow recession / creep
        flags.add('gentle')
        datum = rng.choice([0.0, 1e3, 1.25e5, -3e4, 1e6]) * rng.choice([1.0, step])
        y = [datum + rng.uniform(-2, 2) * step]
        drift = rng.choice([-1, 1, -1]) * rng.choice([0.3, 0.05, 0.011, 1e-3, 1e-6, 1e-9])
        for _ in range(m - 1):
            r = rng.random()
            if r < 0.15:
                k = round(y[-1] / step)
                y.append(k * step)
                flags.add('on-level')
            elif r < 0.25:
                y.append(float(np.nextafter(y[-1], y[-1] + drift)))
            else:
                y.append(y[-1] + drift * step * rng.uniform(0.5, 1.5))
        return x, np.array(y, dtype=float), step, flags

    def val(prev):
        r = rng.random()
        k = rng.randint(-12, 12)
        if r < 0.25:
            flags.add('on-level')
            if rng.random() < 0.4:
                # the level as a logger prints it (a decimal number), not as k * step rounds
                return float(repr(round(k * step, 6)))
            return k * step
        if r < 0.35:
            flags.add('ulp')
            return float(np.nextafter(k * step, rng.choice([-1e9, 1e9])))
        if r < 0.42 and prev is not None:
            flags.add('flat')
            return prev
        if r < 0.5:
            return rng.uniform(-2500, 100)  # field-like magnitudes, many crossings
        return rng.uniform(-12, 12) * step

    y = []
    for i in range(m):
        v = val(y[-1] if y else None)
        y.append(v)
    if shape == 'rising':
        y.sort()
    elif shape == 'falling':
        y.sort(reverse=True)
    elif shape == 'zigzag':
        y = [v if i % 2 == 0 else v + rng.choice([-3, 3]) * step for i, v in enumerate(y)]
    # bound the number of crossings
    span = max(y) - min(y)
    if span / step > 60:
        mid = 0.5 * (max(y) + min(y))
        y = [mid + (v - mid) * (60 * step / span) for v in y]
    return x, np.array(y, dtype=float), step, flags


def classify_series(x, y, step, flags):
    out = set(flags)
    d = [b - a for a, b in zip(y[:-1], y[1:])]
    if any(a > 0 for a in d) and any(a < 0 for a in d):
        out.add('nonmonotone')
    if any(a == 0 for a in d):
        out.add('flat')
    if len(x) and x[0] > 1e9:
        out.add('epoch')
    return out


def check_regrid_case(ctx, x, y, step, flags=(), source='generated'):
    import numpy as np
    import spowtd.regrid as rg

    rec = ctx.rec
    rec.case()
    case = {'kind': 'regrid', 'x': [float(v) for v in x], 'y': [float(v) for v in y], 'step': float(step)}
    xa, ya = np.array(x, dtype=float), np.array(y, dtype=float)
    if len(xa) and np.all(ya == np.round(ya)) and np.all(xa == np.round(xa)) and np.all(np.abs(xa) < 2 ** 52):
        # whole-number series are also handed over as integer arrays (epochs are integers)
        xa, ya = xa.astype(np.int64), ya.astype(np.int64)
        rec.hit('integer-typed-series')
    try:
        out = list(rg.regrid(xa, ya, step))
    except Exception as exc:  # pylint: disable=broad-except
        desc = core.describe_exception(exc)
        if desc['origin'] == 'harness':
            rec.inconclusive_because('harness exception calling regrid: {}'.format(desc))
            return
        rec.violation('regrid-raises:' + desc['type'], {'exception': desc}, case, 'regrid')
        return
    rec.hit('regrid-calls')
    if not (np.array_equal(xa.astype(float), np.array(x, dtype=float)) and np.array_equal(ya.astype(float), np.array(y, dtype=float))):
        rec.violation('the-sampled-series-handed-in-is-modified', {'y_before': case['y'][:6], 'y_after': ya.tolist()[:6], 'step': float(step)}, case, 'regrid')
        return out
    # a second pass over the same arrays (another command, another grid) must see the same record
    if len(xa) and rec.evaluations % 7 == 0:
        list(rg.regrid(xa, ya, step * 2.5))  # another grid on the same record in between
        again = list(rg.regrid(xa, ya, step))
        if [(int(k), float(v)) for k, v in again] != [(int(k), float(v)) for k, v in out]:
            rec.violation('second-pass-over-the-same-series-reports-other-crossings', {'first': [(int(k), float(v)) for k, v in out[:6]], 'second': [(int(k), float(v)) for k, v in again[:6]]}, case, 'regrid')
            return out
        rec.hit('second-passes-compared')
    # the same record in other containers: read-only arrays, strided and big-endian views
    if len(xa) >= 2 and rec.evaluations % 5 == 0:
        fx, fy = np.array(x, dtype=float), np.array(y, dtype=float)
        wide = np.empty((len(fx), 2))
        wide[:, 0], wide[:, 1] = fx, fy
        ro_x, ro_y = fx.copy(), fy.copy()
        ro_x.setflags(write=False)
        ro_y.setflags(write=False)
        forms = [('read-only arrays', ro_x, ro_y), ('columns of one 2-d array', wide[:, 0], wide[:, 1]),
                 ('big-endian arrays', fx.astype('>f8'), fy.astype('>f8'))]  # (regrid documents arrays: plain lists are not an input form)
        name, ax, ay = forms[(rec.evaluations // 5) % len(forms)]
        try:
            other = list(rg.regrid(ax, ay, step))
        except Exception as exc:  # pylint: disable=broad-except
            rec.violation('series-refused-in-another-container', {'form': name, 'exception': core.describe_exception(exc)}, case, 'regrid')
            return out
        # the same levels must be reported, and the positions must satisfy the property on their own
        # (judged by the same oracle as the plain result: on a nearly flat chord another byte order,
        # which takes another arithmetic path through numpy, legitimately lands elsewhere within the
        # conditioning of the crossing)
        if [int(k) for k, _ in other] != [int(k) for k, _ in out]:
            rec.violation('crossings-depend-on-the-container-of-the-series', {'form': name, 'plain': [(int(k), float(v)) for k, v in out[:6]],
                                                                             'other': [(int(k), float(v)) for k, v in other[:6]]}, case, 'regrid')
            return out
        errs_other, _ = oracle_regrid.check([float(v) for v in x], [float(v) for v in y], float(step), other)
        if errs_other:
            key, w = errs_other[0]
            rec.violation('in-another-container:' + key, dict(w, form=name), case, 'regrid')
            return out
        rec.hit('series-in-other-containers-compared')
    errs, info = oracle_regrid.check([float(v) for v in x], [float(v) for v in y], float(step), out)
    rec.hit('crossings-must', info['must'])
    rec.hit('crossings-tie-ambiguous', info['maybe'])
    rec.hit('crossings-reported', len(out))
    cls = classify_series(x, y, step, flags)
    if len(x) > 1024:
        rec.hit('series-with-more-than-1024-samples')
    for name, label in (('gentle', 'series-gentle-around-a-distant-datum'), ('on-level', 'series-with-sample-on-level'), ('ulp', 'series-with-one-ulp-beside-level'),
                        ('flat', 'series-with-flat-pair'), ('epoch', 'series-with-epoch-abscissae'),
                        ('nonmonotone', 'series-nonmonotone')):
        if name in cls:
            rec.hit(label)
    rec.hit('pairs-falling', sum(1 for a, b in zip(y[:-1], y[1:]) if b < a))
    rec.hit('pairs-rising', sum(1 for a, b in zip(y[:-1], y[1:]) if b > a))
    for key, w in errs:
        rec.violation(key, w, case, 'regrid')
    if 'on-level' in cls and 'nonmonotone' in cls:
        rec.mark_nontrivial(core.digest(([round(v / step, 3) for v in y], step, len(x))))
        rec.sample({'x': case['x'], 'y': case['y'], 'step': step, 'reported': [(int(k), float(v)) for k, v in out[:8]]})
    return out


def check_head_mapping_case(ctx, rng):
    """build_head_mapping: per series and level the mean of its crossings"""
    import numpy as np
    import spowtd.fit_offsets as fo
    import spowtd.regrid as rg

    rec = ctx.rec
    rec.case()
    series = []
    step = None
    for _ in range(rng.randint(1, 5)):
        x, y, st, _ = gen_series(rng)
        step = step or st
        series.append((x, y))
    if rng.random() < 0.03:
        x, y, st, _ = gen_long_series(rng)
        if len(series) == 1 or rng.random() < 0.5:
            step = st
        series.insert(rng.randrange(len(series) + 1), (x, y))
        rec.hit('head-mappings-with-a-series-of-more-than-1024-samples')
    if rng.random() < 0.4:
        # a second series with bit-identical ordinates on another clock (another sampling
        # step, another start): its crossings are at other abscissae
        x0, y0 = series[rng.randrange(len(series))]
        series.append((float(rng.choice([0.0, 5e8])) + (x0 - x0[0]) * rng.choice([2.0, 0.5, 3.0]), y0.copy()))
        rec.hit('head-mappings-with-identical-ordinates-on-another-clock')
    case = {'kind': 'head_mapping', 'series': [[list(map(float, x)), list(map(float, y))] for x, y in series], 'step': step}
    try:
        hm = fo.build_head_mapping(series, step)
        hm_again = fo.build_head_mapping(series, step)
        if sorted((k, sorted(v)) for k, v in hm.items()) != sorted((k, sorted(v)) for k, v in hm_again.items()):
            rec.violation('second-pass-over-the-same-series-reports-other-crossings', {'first': str(sorted(hm.items()))[:400], 'second': str(sorted(hm_again.items()))[:400]}, case, 'head_mapping')
            return
    except Exception as exc:  # pylint: disable=broad-except
        desc = core.describe_exception(exc)
        if desc['origin'] == 'harness':
            rec.inconclusive_because('harness exception calling build_head_mapping: {}'.format(desc))
            return
        rec.violation('build_head_mapping-raises:' + desc['type'], {'exception': desc}, case, 'head_mapping')
        return
    exp = {}
    for sid, (x, y) in enumerate(series):
        per = {}
        for k, xt in rg.regrid(x, y, step):  # regrid itself is checked above
            per.setdefault(int(k), []).append(float(xt))
        for k, xs in per.items():
            exp.setdefault(k, {})[sid] = math.fsum(xs) / len(xs)
    got = {}
    dup = False
    for k, seq in hm.items():
        for sid, t in seq:
            if sid in got.setdefault(int(k), {}):
                dup = True
            got[int(k)][sid] = float(t)
    ok = not dup and set(got) == set(exp) and all(set(got[k]) == set(exp[k]) for k in exp)
    if ok:
        for k in exp:
            for sid in exp[k]:
                if abs(got[k][sid] - exp[k][sid]) > 1e-9 * max(1.0, abs(exp[k][sid])):
                    ok = False
    if not ok:
        rec.violation('head-mapping-is-not-the-mean-of-crossings', {'got': str(sorted(got.items()))[:600], 'expected': str(sorted(exp.items()))[:600]}, case, 'head_mapping')
    rec.hit('head-mappings-checked')
    if any(len(v) > 1 for v in exp.values()):
        rec.hit('head-mappings-with-shared-levels')


def check_workflow_calls(ctx, rng, n):
    """L1 contract on regrid.regrid while real rise / recession workflows run:
    every call the pipeline itself makes is put to the same oracle"""
    import spowtd.regrid as rg
    from .. import curves_common, gen_planted, instrument

    rec = ctx.rec
    contracts = instrument.Contracts()
    calls = []

    def post(c, args, kwargs, result):
        items = list(result)
        calls.append((args, kwargs, items))
        return iter(items)

    contracts.wrap(rg, 'regrid', post, snapshot=False)
    try:
        for i in range(n):
            case = gen_planted.gen(rng) if i % 2 == 0 else gen_planted.gen_noisy(rng)
            connection, _, exc = curves_common.build_dataset(ctx, case, 'function')
            if exc is not None:
                if connection is not None:
                    connection.close()
                continue
            for kind in ('rise', 'recession'):
                del calls[:]
                curves_common.run_curve(connection, kind)
                for args, kwargs, items in calls:
                    x, y, step = args[0], args[1], args[2]
                    rec.case()
                    rec.hit('regrid-calls-made-by-' + kind)
                    errs, info = oracle_regrid.check([float(v) for v in x], [float(v) for v in y], float(step), items)
                    rec.hit('workflow-crossings-must', info['must'])
                    for key, w in errs:
                        rec.violation(key, dict(w, made_by=kind), {'kind': 'regrid', 'x': [float(v) for v in x], 'y': [float(v) for v in y], 'step': float(step)}, 'regrid')
            connection.close()
    finally:
        contracts.uninstall()


def run(ctx):
    import numpy as np

    s = SIZES[ctx.tier]
    check_workflow_calls(ctx, ctx.rng('workflow'), ctx.share(s['wf']))
    rng = ctx.rng('regrid')
    for _ in range(ctx.share(s['n'])):
        x, y, step, flags = gen_series(rng)
        check_regrid_case(ctx, x, y, step, flags)
    # degenerate inputs
    out = check_regrid_case(ctx, np.array([]), np.array([]), 1.0)
    if out == []:
        ctx.rec.hit('empty-series')
    rng = ctx.rng('head-mapping')
    for _ in range(ctx.share(s['hm'])):
        check_head_mapping_case(ctx, rng)


def replay(ctx, case, module=None):
    import numpy as np

    if case.get('kind') == 'regrid':
        check_regrid_case(ctx, np.array(case['x']), np.array(case['y']), case['step'])
    else:
        ctx.rec.inconclusive_because('replay of head_mapping cases regenerates from the seed; rerun the tier')
