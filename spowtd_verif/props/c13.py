"""C13 -- every master-curve row traces back to a classified interval and its data"""

from .. import core, curves_common, curves_corpus, gen_series, oracle_curves

PROPERTY = 'C13'
LEVEL = 'exploration'
SHARDS = {'quick': 4, 'thorough': 16}
RULE = (
    'Planted, two-band, noisy and long G-series datasets x grid steps (incl. records shifted so that min or max '
    'water level is exactly a multiple of the step, and grids of 4-10 mm that some rises do not cross at all) through load, classify, set-zeta-grid, rise, recession (function '
    'and CLI; field data in thorough).  Walker: rising_interval rows are paired rises, recession_interval rows are '
    'interstorm intervals; every stored crossing equals the mean crossing recomputed by closed-form chord inversion '
    'from that interval\'s own samples (rise: segment (0, zeta_initial) -> (depth of its own storm recomputed from the '
    'rainfall rows, zeta_final)); view rising_curve_line_segment equals the same; every level is in discrete_zeta; '
    'the grid is the contiguous range of cells covering [min, max] with floor/ceil ends (tested directly after '
    'set-zeta-grid on every dataset, whether or not a curve assembles).  Non-trivial: >= 2 intervals in the curve; '
    'distinct by dataset digest x step.'
)
ASSUMPTIONS = [
    'a level within 1e-9 (relative) of y/step being an integer is tie-ambiguous for membership and is not compared',
]
SIZES = {'quick': dict(ds=100, cli=10), 'thorough': dict(ds=4000, cli=200, field=True)}
REQUIRED = {
    tier: {
        'grids-checked': 50,
        'observed-extreme-on-a-grid-level': 8,
        'recession-curves-assembled': 20,
        'rise-curves-assembled': 20,
        'recession:crossing-values-checked': 1000,
        'rise:crossing-values-checked': 1000,
        'rise:line-segment-view-rows-checked': 50,
        'sessions-with-repeated-steps': 5,
        'rise:classified-intervals-crossing-no-grid-level': 3,
        'datasets-with-a-flat-stretch-between-two-drizzles': 5,
    }
    for tier in ('quick', 'thorough')
}
MIN_NONTRIVIAL = {'quick': 40, 'thorough': 1000}


def put_extreme_on_level(case, rng):
    gs = case['grid_step']
    zs = [v for _, v in case['z']]
    which = rng.choice(['min', 'max'])
    ref = min(zs) if which == 'min' else max(zs)
    k = round(ref / gs)
    shift = k * gs - ref
    case = dict(case)
    case['z'] = [[t, v + shift] for t, v in case['z']]
    if 'truth' in case:
        case['truth'] = [dict(tr, R=[r + shift for r in tr['R']]) for tr in case['truth']]
    case['extreme_on_level'] = which
    return case


def nontrivial(kind, stats):
    return stats.get('intervals-in-curve', 0) >= 2


def check_dataset(ctx, case, via, index, session=False):
    rec = ctx.rec
    # grid directly after set-zeta-grid
    connection, db, exc = curves_common.build_dataset(ctx, case, 'function')
    if exc is None:
        findings, stats = oracle_curves.check_grid(connection)
        rec.hit('grids-checked')
        for name, n in stats.items():
            rec.hit(name, n)
        for p, k, w in findings:
            rec.violation(k, w, case, 'dataset')
    if connection is not None:
        connection.close()
    curves_corpus.run_dataset(ctx, PROPERTY, case, via, index, nontrivial=nontrivial, session=session)


def run(ctx):
    s = SIZES[ctx.tier]
    rng = ctx.rng('datasets')
    n = ctx.share(s['ds'])
    ncli = ctx.share(s['cli'])
    for i in range(n):
        case = curves_corpus.make_case(rng, i)
        if i % 3 == 0:
            if case.get('kind') != 'planted':
                case['grid_step'] = rng.choice([0.125, 0.25, 0.5, 1.0, 2.0])
            case = put_extreme_on_level(case, rng)
        if i % 5 == 4:
            # a grid coarser than the smallest rises / recessions: some classified intervals cross no level
            from .. import gen_planted
            case = gen_planted.gen(rng, n_events=rng.randint(12, 25))
            # grid step about the size of a typical rise of this record
            zs = [v for _, v in case['z']]
            ups = sorted(b - a for a, b in zip(zs, zs[1:]) if b - a > 0.5)
            case['grid_step'] = float(max(2, round(1.5 * ups[len(ups) // 2]))) if ups else 8.0
        if i % 5 in (1, 3):
            # a classified interstorm interval during which the level does not move
            case, ok = curves_corpus.with_flat_interstorm(case, rng)
            if ok:
                ctx.rec.hit('datasets-with-a-flat-stretch-between-two-drizzles')
        check_dataset(ctx, case, 'cli' if i < ncli else 'function', i, session=(i % 4 == 1))
    if s.get('field'):
        from . import c05
        saved = c05.PROPERTY
        try:
            c05.PROPERTY = PROPERTY
            c05.run_field(ctx)
        finally:
            c05.PROPERTY = saved


def replay(ctx, case, module=None):
    if case.get('kind') == 'field':
        ctx.rec.inconclusive_because('field cases are re-run by the thorough tier')
        return
    check_dataset(ctx, case, 'function', 0, session=bool(case.get('session')))
