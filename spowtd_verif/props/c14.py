"""C14 -- placeholder until the check is built"""
PROPERTY = 'C14'
LEVEL = 'exploration'
SHARDS = {'quick': 1, 'thorough': 1}
RULE = 'not built yet'


def run(ctx):
    ctx.rec.inconclusive_because('check not built yet')


def replay(ctx, case, module=None):
    ctx.rec.inconclusive_because('check not built yet')
