"""C14 -- spline specific yield interpolates its knots and integrates consistently"""

import math

import numpy as np

from .. import argforms, core, gen_params, oracle_hydraulics as oh

PROPERTY = 'C14'
LEVEL = 'exploration'
SHARDS = {'quick': 4, 'thorough': 16}
RULE = (
    'G-params knot sets (4-9 strictly increasing knots, spacing 1-500 mm, values in [0, 1]: constant, increasing, '
    'arbitrary) built by the real create_specific_yield_function; per set 40 limit pairs/triples drawn from {below '
    'the range, at the first knot, inside, at a knot, at the last knot, above} in every order (a<b, a=b, a>b, both '
    'beyond the same end).  Oracle: value at every knot; constancy beyond both ends; for a fifth of the sets the same levels in every container form of spowtd_verif/argforms.py (argument unchanged, second evaluation identical); integrate(a,b) against the area '
    'under the same callable computed by 5-point Gauss-Legendre on each data-knot interval (exact for the cubic '
    'pieces) plus rectangles outside (1e-10 relative to the scale of the area); additivity over adjacent ranges and '
    'antisymmetry; a function built three sets earlier is re-checked after newer spline objects exist.  Non-trivial: limits straddling a domain end or reversed; distinct by (knot-set digest, class of '
    'limits).'
)
ASSUMPTIONS = ['FITPACK\'s interpolating cubic spline has its breakpoints at data knots only, so 5-point Gauss-Legendre per data interval is exact']
SIZES = {'quick': dict(sets=2000, pairs=40, dump=40), 'thorough': dict(sets=40000, pairs=60, dump=1000)}
REQUIRED = {
    tier: {
        'knot-values-checked': 2000,
        'extrapolation-checked': 1000,
        'integrals-vs-area': 10000,
        'additivity-triples': 5000,
        'integrals-of-older-objects-rechecked': 1000,
        'dumped-sy-values-checked': 200,
        'integer-limits': 500,
        'argument-forms-vs-scalar': 100,
        'class:below-below': 100, 'class:above-above': 100, 'class:below-above': 100, 'class:inside-inside': 100,
        'class:below-inside': 100, 'class:inside-above': 100, 'class:reversed': 2000, 'class:equal-limits': 100,
    }
    for tier in ('quick', 'thorough')
}
MIN_NONTRIVIAL = {'quick': 2000, 'thorough': 50000}


def region(x, lo, hi):
    return 'below' if x < lo else ('above' if x > hi else 'inside')


def draw_limit(rng, knots):
    lo, hi = knots[0], knots[-1]
    span = hi - lo
    r = rng.random()
    if r < 0.2:
        return lo - rng.uniform(0.001, 2) * span
    if r < 0.4:
        return hi + rng.uniform(0.001, 2) * span
    if r < 0.5:
        return rng.choice(knots)
    if r < 0.55:
        return lo
    if r < 0.6:
        return hi
    return rng.uniform(lo, hi)


def check_set(ctx, rng, params, npairs):
    import spowtd.specific_yield as sy_mod

    rec = ctx.rec
    knots = [float(v) for v in params['zeta_knots_mm']]
    vals = [float(v) for v in params['sy_knots']]
    case = {'kind': 'spline_sy', 'params': params}
    try:
        sy = sy_mod.create_specific_yield_function(dict(params))
    except Exception as exc:  # pylint: disable=broad-except
        desc = core.describe_exception(exc)
        if desc['origin'] == 'harness':
            rec.inconclusive_because('harness exception: {}'.format(desc))
        else:
            rec.violation('construction-raises:' + desc['type'], {'exception': desc}, case, 'spline_sy')
        return
    vmax = max(1e-3, max(abs(v) for v in vals))
    rec.case()
    got = np.asarray(sy(np.array(knots)), dtype=float)
    if not np.all(np.abs(got - np.array(vals)) <= 1e-9 * vmax):
        rec.violation('does-not-pass-through-a-knot', {'knots': knots, 'values': vals, 'got': got.tolist()}, case, 'spline_sy')
        return
    rec.hit('knot-values-checked', len(knots))
    lo, hi = knots[0], knots[-1]
    span = hi - lo
    for x, ref in ((lo - 0.5 * span, vals[0]), (lo - 1e-6, vals[0]), (hi + 1e-6, vals[-1]), (hi + 3 * span, vals[-1])):
        v = float(sy(x))
        if abs(v - ref) > 1e-9 * vmax:
            rec.violation('not-constant-outside-the-knot-range', {'level': x, 'value': v, 'end_value': ref}, case, 'spline_sy')
            return
        rec.hit('extrapolation-checked')
    # levels (knots, whole numbers beyond both ends and inside, arbitrary ones) in every container
    # form; argument unchanged; second evaluation of the same object identical
    if rng.random() < 0.2:
        pts = [knots[0], knots[-1], float(math.floor(lo) - 3), float(math.ceil(hi) + 40), float(round(0.5 * (lo + hi))),
               rng.uniform(lo, hi), rng.uniform(lo - span, hi + span)]
        scalars = [float(sy(x)) for x in pts]
        if not argforms.check_forms(rec, sy, pts, scalars, '', case, 'spline_sy', 'argument-forms-vs-scalar', exact=False, rel_tol=1e-13):
            return
    f = lambda x: np.asarray(sy(np.asarray(x, dtype=float)), dtype=float)
    # the actual range of the function, for the scale of an area
    fmax = max(vmax, float(np.max(np.abs(f(np.linspace(lo, hi, 101))))))
    for _ in range(npairs):
        a, b, c = draw_limit(rng, knots), draw_limit(rng, knots), draw_limit(rng, knots)
        if rng.random() < 0.05:
            b = a
        if rng.random() < 0.1:
            # whole-number limits handed over as Python ints
            a, b, c = int(round(a)), int(round(b)), int(round(c))
            rec.hit('integer-limits')
        rec.case()
        ra, rb = region(a, lo, hi), region(b, lo, hi)
        cls = '-'.join(sorted([ra, rb], key=['below', 'inside', 'above'].index))
        rec.hit('class:' + cls)
        if a > b:
            rec.hit('class:reversed')
        if a == b:
            rec.hit('class:equal-limits')
        try:
            iab = float(sy.integrate(a, b))
            iba = float(sy.integrate(b, a))
            ibc = float(sy.integrate(b, c))
            iac = float(sy.integrate(a, c))
        except Exception as exc:  # pylint: disable=broad-except
            desc = core.describe_exception(exc)
            if desc['origin'] == 'harness':
                rec.inconclusive_because('harness exception: {}'.format(desc))
                return
            rec.violation('integrate-raises:' + desc['type'], {'exception': desc, 'limits': [a, b, c]}, dict(case, limits=[a, b, c]), 'spline_sy')
            return
        ref = oh.clamped_integral(f, a, b, knots)
        scale = fmax * (abs(b - a) + abs(c - b) + abs(c - a)) + 1e-300
        w = {'limits': [a, b, c], 'classes': [ra, rb], 'knots': knots, 'values': vals}
        if abs(iab - ref) > 1e-10 * max(scale, fmax * span):
            rec.violation('integral-differs-from-the-area-under-the-function', dict(w, integrate=iab, area=ref), dict(case, limits=[a, b, c]), 'spline_sy')
            return
        rec.hit('integrals-vs-area')
        if abs(iab + iba) > 1e-12 * scale:
            rec.violation('integral-does-not-change-sign-when-limits-are-swapped', dict(w, ab=iab, ba=iba), dict(case, limits=[a, b, c]), 'spline_sy')
            return
        if abs(iab + ibc - iac) > 1e-10 * scale:
            rec.violation('integrals-are-not-additive', dict(w, ab=iab, bc=ibc, ac=iac), dict(case, limits=[a, b, c]), 'spline_sy')
            return
        rec.hit('additivity-triples')
        if ra != rb or a > b:
            rec.mark_nontrivial(core.digest((knots, vals, cls, a > b)))
    if len(rec.samples) < 3:
        rec.sample({'knots_mm': knots, 'sy_values': vals, 'example_limits': [a, b], 'integrate': iab, 'area_by_quadrature': ref})
    _OLDER.append((sy, f, knots, vals, fmax, case))
    if len(_OLDER) > 3:
        _OLDER.pop(0)
    recheck_older(ctx, rng)


def check_dump(ctx, rng):
    """`spowtd plot specific-yield --dump`: knot values and constant tails through the CLI"""
    from scipy import interpolate
    from .. import dump_cli

    rec = ctx.rec
    rec.case()
    psy = gen_params.spline_sy(rng, positive=False)
    params = {'specific_yield': psy, 'transmissivity': gen_params.spline_T(rng)}
    knots = [float(v) for v in psy['zeta_knots_mm']]
    vals = [float(v) for v in psy['sy_knots']]
    span = knots[-1] - knots[0]
    lo_cm, hi_cm = (knots[0] - rng.uniform(0, 1) * span) / 10, (knots[-1] + rng.uniform(0, 1) * span) / 10
    rows, err = dump_cli.run_dump(ctx, 'specific-yield', params, lo_cm, hi_cm, rng.randint(3, 40))
    case = {'kind': 'dump', 'params': psy, 'range_cm': [lo_cm, hi_cm]}
    if err:
        rec.violation('plot-specific-yield-dump-fails', {'error': err}, case, 'dump')
        return
    tck = interpolate.splrep(knots, vals, s=0, k=3)
    vmax = max(1e-3, max(abs(v) for v in vals))
    for z_cm, v in rows:
        z = min(max(z_cm * 10, knots[0]), knots[-1])
        exp = float(interpolate.splev(z, tck))
        if abs(v - exp) > 1e-9 * vmax:
            rec.violation('dumped-specific-yield-differs-from-the-clamped-interpolating-spline', {'level_cm': z_cm, 'dumped': v, 'expected': exp, 'knots': knots, 'values': vals}, case, 'dump')
            return
    rec.hit('dumped-sy-values-checked', len(rows))


_OLDER = []


def recheck_older(ctx, rng):
    """Integrals of a function built earlier, after other spline objects have been
    created since (specific yields and transmissivities of other sites)"""
    import spowtd.transmissivity as t_mod

    rec = ctx.rec
    if len(_OLDER) < 2:
        return
    # something else gets built in between, as in a script handling several sites
    t_mod.create_transmissivity_function(dict(gen_params.spline_T(rng)))
    sy, f, knots, vals, fmax, case = _OLDER[0]
    span = knots[-1] - knots[0]
    for _ in range(6):
        a, b = draw_limit(rng, knots), draw_limit(rng, knots)
        rec.case()
        got = float(sy.integrate(a, b))
        ref = oh.clamped_integral(f, a, b, knots)
        if abs(got - ref) > 1e-10 * max(fmax * (abs(b - a) + span), 1e-300):
            rec.violation('integral-of-an-older-function-differs-from-its-area-after-other-functions-were-built',
                          {'limits': [a, b], 'integrate': got, 'area': ref, 'knots': knots, 'values': vals}, dict(case, limits=[a, b, a]), 'spline_sy')
            return
        rec.hit('integrals-of-older-objects-rechecked')


def run(ctx):
    s = SIZES[ctx.tier]
    rng = ctx.rng('dump')
    for _ in range(ctx.share(s.get('dump', 0))):
        check_dump(ctx, rng)
    rng = ctx.rng('sy')
    for _ in range(ctx.share(s['sets'])):
        check_set(ctx, rng, gen_params.spline_sy(rng, positive=False), s['pairs'])


def replay(ctx, case, module=None):
    rng = core.make_rng('replay')
    check_set(ctx, rng, case['params'], 200)
