"""C15 -- spline transmissivity is the minimum plus the integral of conductivity"""

import numpy as np

from .. import argforms, core, gen_params, oracle_hydraulics as oh

PROPERTY = 'C15'
LEVEL = 'exploration'
SHARDS = {'quick': 4, 'thorough': 16}
RULE = (
    'G-params: 2-7 strictly increasing knots (spacing 1-1000 mm), conductivities over 11 decades (monotone, arbitrary, '
    'and narrow-spike sets: one knot 4-11 decades above its neighbours), T_min 1e-3..1e2, built by the real '
    'create_transmissivity_function; levels below / at the lowest knot, between knots, one ulp and 1e-9 beside knots, '
    'at every knot including the highest; Python floats, numpy scalars, lists and arrays in sorted and in arbitrary order, and the same levels in every container form of spowtd_verif/argforms.py (tuples, read-only / reversed / strided / big-endian arrays, Python ints, int64 and int32 arrays; argument unchanged, second evaluation of the same object identical).  Oracle: closed form '
    'T_min + sum K_j expm1(s d)/s per log-linear segment (1e-9 relative); T = T_min at and below the lowest knot; '
    'non-decreasing over the sorted levels; continuity across knots; array == scalar results.  Non-trivial: level '
    'above >= 2 knots with a conductivity ratio >= 100 between neighbours; distinct by (parameter digest, level).'
)
ASSUMPTIONS = ['levels above the highest knot are outside the property (the code refuses them with NotImplementedError)']
SIZES = {'quick': dict(sets=1000, levels=24, dump=40), 'thorough': dict(sets=12000, levels=40, dump=1000)}
REQUIRED = {
    tier: {
        'values-vs-closed-form': 4000,
        'levels-at-or-below-lowest-knot': 300,
        'levels-at-a-knot': 500,
        'levels-beside-a-knot': 500,
        'monotonicity-pairs': 3000,
        'array-vs-scalar': 200,
        'argument-forms-vs-scalar': 200,
        'argument-forms-vs-scalar:int64-array': 100,
        'argument-forms-vs-scalar:read-only-array': 200,
        'shuffled-array-vs-scalar': 200,
        'integer-levels': 200,
        'narrow-spike-sets': 40,
        'dumped-T-values-checked': 200,
        'sets-sharing-knot-positions-with-the-previous-one': 50,
    }
    for tier in ('quick', 'thorough')
}
MIN_NONTRIVIAL = {'quick': 500, 'thorough': 20000}


def check_set(ctx, rng, params, nlevels):
    import spowtd.transmissivity as t_mod

    rec = ctx.rec
    knots = [float(v) for v in params['zeta_knots_mm']]
    K = [float(v) for v in params['K_knots_km_d']]
    tmin = float(params['minimum_transmissivity_m2_d'])
    case = {'kind': 'spline_T', 'params': params}
    try:
        T = t_mod.create_transmissivity_function(dict(params))
    except Exception as exc:  # pylint: disable=broad-except
        desc = core.describe_exception(exc)
        if desc['origin'] == 'harness':
            rec.inconclusive_because('harness exception: {}'.format(desc))
        else:
            rec.violation('construction-raises:' + desc['type'], {'exception': desc}, case, 'spline_T')
        return
    ratios = [max(a / b, b / a) for a, b in zip(K[:-1], K[1:])]
    # conditioning: rounding a level by one ulp changes K by exp(s * ulp), s = d ln K / dz;
    # knots a fraction of a mm apart at tens of metres make that visible
    import math
    max_s = max(abs(math.log(K[j + 1] / K[j]) / (knots[j + 1] - knots[j])) for j in range(len(knots) - 1))
    rel_tol = 1e-9 + 16 * 2.0 ** -52 * max(abs(knots[0]), abs(knots[-1]), 1.0) * max_s
    if len(K) >= 3 and any(K[i] > 1e3 * max(K[i - 1], K[i + 1]) for i in range(1, len(K) - 1)):
        rec.hit('narrow-spike-sets')
    lo, hi = knots[0], knots[-1]
    levels = []
    for _ in range(nlevels):
        r = rng.random()
        if r < 0.1:
            levels.append(lo - rng.uniform(0, 500))
        elif r < 0.3:
            levels.append(rng.choice(knots))
        elif r < 0.45:
            k = rng.choice(knots)
            levels.append(min(hi, float(np.nextafter(k, rng.choice([-1e9, 1e9]))) if rng.random() < 0.5 else min(hi, k + rng.choice([-1, 1]) * 1e-9 * max(1.0, abs(k)))))
        elif r < 0.6:
            levels.append(float(min(hi, max(lo - 5, round(rng.uniform(lo, hi))))))
        else:
            levels.append(rng.uniform(lo, hi))
    levels.append(hi)
    levels.append(lo)
    levels = sorted(levels)
    values = []
    for z in levels:
        rec.case()
        zz = z if rng.random() < 0.7 else np.float64(z)
        if float(z).is_integer() and rng.random() < 0.5:
            zz = int(z)
            rec.hit('integer-levels')
        try:
            if rec.evaluations % 10 == 3:
                # a caller who runs numpy with every floating-point condition raised
                with np.errstate(all='raise'):
                    v = float(T(zz))
                rec.hit('values-computed-with-numpy-errstate-all-raise')
            else:
                v = float(T(zz))
        except Exception as exc:  # pylint: disable=broad-except
            desc = core.describe_exception(exc)
            if desc['origin'] == 'harness':
                rec.inconclusive_because('harness exception: {}'.format(desc))
                return
            rec.violation('call-raises:' + desc['type'], {'exception': desc, 'level': z}, dict(case, level=z), 'spline_T')
            return
        ref = oh.transmissivity_closed_form(z, knots, K, tmin)
        w = {'level': z, 'T': v, 'closed_form': ref, 'knots': knots, 'K': K, 'T_min': tmin}
        if z <= lo:
            rec.hit('levels-at-or-below-lowest-knot')
            if v != tmin:
                rec.violation('not-the-minimum-at-or-below-the-lowest-knot', w, dict(case, level=z), 'spline_T')
                return
        if z in knots:
            rec.hit('levels-at-a-knot')
        elif any(abs(z - k) <= 2e-9 * max(1.0, abs(k)) for k in knots):
            rec.hit('levels-beside-a-knot')
        if abs(v - ref) > rel_tol * abs(ref):
            rec.violation('differs-from-minimum-plus-integral-of-conductivity', dict(w, relative_error=abs(v - ref) / abs(ref)), dict(case, level=z), 'spline_T')
            return
        rec.note_max('max relative error vs closed form', abs(v - ref) / abs(ref))
        rec.hit('values-vs-closed-form')
        values.append(v)
        above = sum(1 for k in knots if z > k)
        if above >= 2 and any(r >= 100 for r in ratios[:above]):
            rec.mark_nontrivial(core.digest((knots, K, z)))
    for (z0, v0), (z1, v1) in zip(zip(levels, values), zip(levels[1:], values[1:])):
        rec.hit('monotonicity-pairs')
        if v1 < v0 - max(1e-10, rel_tol) * abs(v0):  # each value is a separate quadrature, accurate to about 1e-12 relative
            rec.violation('decreases-as-the-water-level-rises', {'levels': [z0, z1], 'T': [v0, v1], 'knots': knots, 'K': K}, dict(case, level=z1), 'spline_T')
            return
    # continuity across interior knots
    for k in knots[1:-1]:
        d = 1e-7 * max(1.0, abs(k))
        a, b = float(T(k - d)), float(T(k + d))
        kk = max(oh.transmissivity_closed_form(k, knots, K, tmin), tmin)
        slope = max(K)
        if abs(b - a) > 2 * d * slope * 1.01 + max(1e-9, rel_tol) * max(kk, abs(a), abs(b)):
            rec.violation('jump-across-a-knot', {'knot': k, 'below': a, 'above': b}, dict(case, level=k), 'spline_T')
            return
        rec.hit('continuity-checked')
    # array == scalar
    arr = np.array(levels)
    for form in (arr, list(levels)):
        got = np.asarray(T(form), dtype=float)
        if got.shape != (len(levels),) or not np.array_equal(got, np.array(values)):
            rec.violation('array-and-scalar-results-differ', {'levels': levels[:6], 'array': got.tolist()[:6], 'scalar': values[:6]}, case, 'spline_T')
            return
    # the same levels in every form a caller may hand them over in; the argument comes back
    # unchanged and a second evaluation of the same object agrees
    if not argforms.check_forms(rec, T, levels, values, '', case, 'spline_T', 'argument-forms-vs-scalar'):
        return
    # arrays in arbitrary (non-monotone) order, as a water-level record would be
    for _ in range(2):
        perm = list(range(len(levels)))
        rng.shuffle(perm)
        shuffled = [levels[i] for i in perm]
        got = np.asarray(T(np.array(shuffled) if rng.random() < 0.5 else shuffled), dtype=float)
        exp = np.array([values[i] for i in perm])
        if got.shape != exp.shape or not np.array_equal(got, exp):
            rec.violation('array-and-scalar-results-differ', {'levels_in_call_order': shuffled[:8], 'array': got.tolist()[:8], 'scalar': exp.tolist()[:8]}, case, 'spline_T')
            return
        rec.hit('shuffled-array-vs-scalar')
    rec.hit('array-vs-scalar')
    if len(rec.samples) < 3:
        rec.sample({'knots_mm': knots, 'K_km_d': K, 'T_min': tmin, 'levels': levels[:5], 'T': values[:5]})


def check_dump(ctx, rng):
    from .. import dump_cli

    rec = ctx.rec
    rec.case()
    pT = gen_params.spline_T(rng)
    params = {'specific_yield': gen_params.spline_sy(rng), 'transmissivity': pT}
    knots = [float(v) for v in pT['zeta_knots_mm']]
    K = [float(v) for v in pT['K_knots_km_d']]
    lo_cm = (knots[0] - rng.uniform(0, 200)) / 10
    hi_cm = (knots[0] + rng.uniform(0.05, 1.0) * (knots[-1] - knots[0])) / 10
    rows, err = dump_cli.run_dump(ctx, 'transmissivity', params, lo_cm, hi_cm, rng.randint(3, 25))
    case = {'kind': 'dump', 'params': pT, 'range_cm': [lo_cm, hi_cm]}
    if err:
        rec.violation('plot-transmissivity-dump-fails', {'error': err}, case, 'dump')
        return
    for z_cm, v in rows:
        exp = oh.transmissivity_closed_form(z_cm * 10, knots, K, float(pT['minimum_transmissivity_m2_d']))
        import math
        max_s = max(abs(math.log(K[j + 1] / K[j]) / (knots[j + 1] - knots[j])) for j in range(len(knots) - 1))
        if abs(v - exp) > (1e-9 + 16 * 2.0 ** -52 * max(abs(knots[0]), abs(knots[-1]), 1.0) * max_s + 1e-12 * abs(z_cm)) * abs(exp):
            rec.violation('dumped-transmissivity-differs-from-minimum-plus-integral', {'level_cm': z_cm, 'dumped': v, 'expected': exp, 'params': pT}, case, 'dump')
            return
    rec.hit('dumped-T-values-checked', len(rows))


def run(ctx):
    s = SIZES[ctx.tier]
    rng = ctx.rng('dump')
    for _ in range(ctx.share(s.get('dump', 0))):
        check_dump(ctx, rng)
    rng = ctx.rng('T')
    for i in range(ctx.share(s['sets'])):
        params = gen_params.spline_T(rng)
        check_set(ctx, rng, params, s['levels'])
        if i % 4 == 0:
            # another site with the same knot positions but other conductivities / minimum
            twin = dict(params)
            twin['K_knots_km_d'] = [k * 10 ** rng.uniform(-2, 2) for k in params['K_knots_km_d']]
            twin['minimum_transmissivity_m2_d'] = params['minimum_transmissivity_m2_d'] * rng.choice([0.5, 3.0])
            ctx.rec.hit('sets-sharing-knot-positions-with-the-previous-one')
            check_set(ctx, rng, twin, s['levels'])


def replay(ctx, case, module=None):
    rng = core.make_rng('replay')
    check_set(ctx, rng, case['params'], 60)
