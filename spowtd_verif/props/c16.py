"""C16 -- PEATCLSM functions follow the published formulation"""

import math

import numpy as np

from .. import argforms, core, gen_params, oracle_hydraulics as oh

PROPERTY = 'C16'
LEVEL = 'exploration'
SHARDS = {'quick': 4, 'thorough': 16}
RULE = (
    'G-params (sd, theta_s, b, psi_s) inside the calibration bounds written to the PEST control file, their corners, '
    'integer-valued sets (as `theta_s: 1` loads from YAML) and the published set, built by the real create_specific_yield_function; specific yield evaluated at the 201 '
    'tabulated levels (oracle: vectorised discretisation of the Dettmann-Bechtold profile with erfc, 1e-10 relative), '
    'at midpoints (linear) and beyond both ends (constant); for the published set additionally against the '
    'line-by-line transcription of the shipped R script (200 soil layers, np.allclose as the repository\'s own test). '
    'Transmissivity for (Ksmacz0 in 1e-4..1e5, alpha in (1, 20], zeta_max) on scalars and arrays (every container form of spowtd_verif/argforms.py: tuples, read-only / reversed / strided / big-endian arrays, ints; argument unchanged, second evaluation of the same object identical, refusal above the ceiling repeatable) against '
    'Ksmacz0 (zeta_max - zeta)^(1-alpha) / (100 (alpha - 1)) (1e-12 relative) and refusal above zeta_max.  '
    'The same functions are also reached through the command line (`spowtd plot specific-yield|transmissivity --dump`, '
    'YAML parameter file in, table out).  Non-trivial: parameter set differing from the published one in >= 2 parameters; distinct sets counted.'
)
ASSUMPTIONS = [
    'Rscript is not installed: the R reference is represented by a transcription (layer count 200 as in `for (j in 1:200)`), part of the trusted base',
    'the general clause uses the 201-layer discretisation the Python code documents; for the published set the two agree to 1e-11',
]
SIZES = {'quick': dict(sy=120, T=6000, dump=24), 'thorough': dict(sy=1600, T=100000, dump=600)}
REQUIRED = {
    tier: {
        'sy-tables-checked': 20,
        'sy-published-set-vs-R-transcription': 1,
        'sy-corner-sets': 2,
        'sy-sets-differing-only-in-sd': 4,
        'sy-sets-with-integer-valued-parameters': 2,
        'sy-interpolation-points-checked': 2000,
        'T-values-checked': 3000,
        'T-refusals-above-ceiling': 200,
        'T-array-calls': 200,
        'T-argument-forms-vs-scalar': 200,
        'sy-argument-forms-vs-scalar': 20,
        'T-refusals-above-ceiling-repeated-on-the-same-array': 50,
        'T-refusals-above-ceiling-in-arrays-with-a-missing-reading': 20,
        'dumped-sy-values-checked': 100,
        'dumped-T-values-checked': 100,
    }
    for tier in ('quick', 'thorough')
}
MIN_NONTRIVIAL = {'quick': 20, 'thorough': 1000}


def check_sy(ctx, rng, params, published=False):
    import spowtd.specific_yield as sy_mod

    rec = ctx.rec
    rec.case()
    case = {'kind': 'peatclsm_sy', 'params': params}
    try:
        sy = sy_mod.create_specific_yield_function(dict(params))
    except Exception as exc:  # pylint: disable=broad-except
        desc = core.describe_exception(exc)
        if desc['origin'] == 'harness':
            rec.inconclusive_because('harness exception: {}'.format(desc))
        else:
            rec.violation('construction-raises:' + desc['type'], {'exception': desc, 'params': params}, case, 'peatclsm_sy')
        return
    p = {k: params[k] for k in ('sd', 'theta_s', 'b', 'psi_s')}
    levels, ref = oh.peatclsm_sy_profile(**p, layers=201)
    got = np.asarray(sy(levels), dtype=float)
    scale = max(1e-6, float(np.max(np.abs(ref))))
    err = float(np.max(np.abs(got - ref)))
    rec.note_max('max |sy - profile| / scale at tabulated levels', err / scale)
    if not np.all(np.isfinite(got)) or err > 1e-10 * scale:
        i = int(np.argmax(np.abs(got - ref)))
        rec.violation('tabulated-value-differs-from-the-discretised-profile',
                      {'params': params, 'level_mm': float(levels[i]), 'got': float(got[i]), 'expected': float(ref[i])}, case, 'peatclsm_sy')
        return
    rec.hit('sy-tables-checked')
    # linear in between, constant beyond
    mids = 0.5 * (levels[:-1] + levels[1:])
    q = levels[:-1] + 0.25 * (levels[1:] - levels[:-1])
    for pts, exp in ((mids, 0.5 * (ref[:-1] + ref[1:])), (q, 0.75 * ref[:-1] + 0.25 * ref[1:])):
        g = np.asarray(sy(pts), dtype=float)
        if float(np.max(np.abs(g - exp))) > 1e-9 * scale:
            i = int(np.argmax(np.abs(g - exp)))
            rec.violation('not-linear-between-tabulated-levels', {'params': params, 'level_mm': float(pts[i]), 'got': float(g[i]), 'expected': float(exp[i])}, case, 'peatclsm_sy')
            return
        rec.hit('sy-interpolation-points-checked', len(pts))
    for x, exp in ((levels[0] - 500.0, ref[0]), (levels[0] - 1e-3, ref[0]), (levels[-1] + 1e-3, ref[-1]), (levels[-1] + 2000.0, ref[-1])):
        v = float(sy(x))
        if abs(v - exp) > 1e-9 * scale:
            rec.violation('not-constant-beyond-the-table', {'params': params, 'level_mm': x, 'got': v, 'expected': float(exp)}, case, 'peatclsm_sy')
            return
        rec.hit('sy-extrapolation-points-checked')
    # the same levels in every container form; argument unchanged; second evaluation identical
    pts = [float(levels[rng.randrange(len(levels))]) for _ in range(3)] + [float(round(rng.uniform(levels[0] - 50, levels[-1] + 50))) for _ in range(3)] \
        + [rng.uniform(float(levels[0]) - 50, float(levels[-1]) + 50) for _ in range(3)]
    scalars = [float(sy(x)) for x in pts]
    if not argforms.check_forms(rec, sy, pts, scalars, 'sy:', case, 'peatclsm_sy', 'sy-argument-forms-vs-scalar', exact=False, rel_tol=1e-13):
        return
    if published:
        _, ref_r = oh.peatclsm_sy_profile(**p, layers=200)
        if not np.allclose(got, ref_r):
            rec.violation('published-set-differs-from-the-R-reference', {'max_abs_difference': float(np.max(np.abs(got - ref_r)))}, case, 'peatclsm_sy')
            return
        rec.note_max('published set: max |sy - R transcription|', float(np.max(np.abs(got - ref_r))))
        rec.hit('sy-published-set-vs-R-transcription')
    ndiff = sum(1 for k in p if p[k] != gen_params.PUBLISHED_SY[k])
    if ndiff >= 2:
        rec.mark_nontrivial(core.digest(p))
    if p['sd'] in (1e-3, 2.0) and p['b'] in (0.01, 20.0):
        rec.hit('sy-corner-sets')
    if any(isinstance(v, int) for v in p.values()):
        rec.hit('sy-sets-with-integer-valued-parameters')
    if len(rec.samples) < 3:
        rec.sample({'params': p, 'levels_mm': levels[98:103].tolist(), 'sy': got[98:103].tolist(), 'profile': ref[98:103].tolist()})


def check_T(ctx, rng, params):
    import spowtd.transmissivity as t_mod

    rec = ctx.rec
    rec.case()
    case = {'kind': 'peatclsm_T', 'params': params}
    T = t_mod.create_transmissivity_function(dict(params))
    zmax_mm = params['zeta_max_cm'] * 10
    n = rng.randint(1, 6)
    levels = [zmax_mm - rng.choice([rng.uniform(0.01, 2000), rng.uniform(1e-6, 1), 10.0, 1000.0]) for _ in range(n)]
    form = rng.choice(['scalar', 'array', 'list'])
    try:
        if form == 'scalar':
            got = np.array([float(T(z)) for z in levels])
        elif form == 'array':
            got = np.asarray(T(np.array(levels)), dtype=float)
            rec.hit('T-array-calls')
        else:
            got = np.asarray(T(list(levels)), dtype=float)
            rec.hit('T-array-calls')
    except Exception as exc:  # pylint: disable=broad-except
        desc = core.describe_exception(exc)
        if desc['origin'] == 'harness':
            rec.inconclusive_because('harness exception: {}'.format(desc))
        else:
            rec.violation('admissible-level-refused:' + desc['type'], {'exception': desc, 'levels': levels, 'params': params}, dict(case, levels=levels), 'peatclsm_T')
        return
    ref = oh.peatclsm_transmissivity(levels, params['Ksmacz0'], params['alpha'], params['zeta_max_cm'])
    ok = np.all(np.abs(got - ref) <= 1e-12 * np.abs(ref))
    if not ok:
        rec.violation('differs-from-the-published-formula', {'params': params, 'levels_mm': levels, 'got': got.tolist(), 'expected': ref.tolist()}, dict(case, levels=levels), 'peatclsm_T')
        return
    rec.hit('T-values-checked', len(levels))
    rec.mark_nontrivial(core.digest(params))
    # the same levels (and some whole-number ones) in every container form; argument unchanged;
    # second evaluation of the same object identical
    pts = list(levels) + [float(math.floor(zmax_mm) - k) for k in (1, 7, 250)]
    scalars = [float(T(z)) for z in pts]
    if not argforms.check_forms(rec, T, pts, scalars, 'T:', dict(case, levels=pts), 'peatclsm_T', 'T-argument-forms-vs-scalar', exact=False, rel_tol=1e-13):
        return
    # refused above the ceiling (also when only one element of an array is above)
    above = zmax_mm + rng.choice([1e-6 * max(1.0, abs(zmax_mm)), 0.5, 10.0, 1e4])
    arg = above if rng.random() < 0.5 else np.array(levels + [above])
    if isinstance(arg, np.ndarray) and rng.random() < 0.3:
        # a series with a missing reading (NaN) next to the level above the ceiling
        arg = np.array([float('nan')] + levels + [above] if rng.random() < 0.5 else levels + [above, float('nan')])
        rec.hit('T-refusals-above-ceiling-in-arrays-with-a-missing-reading')
    try:
        v = T(arg)
    except ValueError:
        rec.hit('T-refusals-above-ceiling')
        if isinstance(arg, np.ndarray):
            # the refusal is repeatable and leaves the caller's array alone
            rec.hit('T-refusals-above-ceiling-repeated-on-the-same-array')
            if not (np.isnan(arg).any() or np.array_equal(arg, np.array(levels + [above]))):
                rec.violation('T:argument-array-is-modified-by-the-call', {'params': params, 'refused': True}, dict(case, levels=levels + [above]), 'peatclsm_T')
                return
            try:
                v = T(arg)
            except ValueError:
                pass
            else:
                rec.violation('level-above-ceiling-accepted', {'params': params, 'level_mm': above, 'attempt': 2, 'returned': np.asarray(v).tolist()},
                              dict(case, levels=[above]), 'peatclsm_T')
    except Exception as exc:  # pylint: disable=broad-except
        rec.violation('level-above-ceiling-not-refused-with-an-error-value:' + type(exc).__name__, {'params': params, 'level': above}, dict(case, levels=[above]), 'peatclsm_T')
    else:
        rec.violation('level-above-ceiling-accepted', {'params': params, 'level_mm': above, 'returned': np.asarray(v).tolist()}, dict(case, levels=[above]), 'peatclsm_T')


def check_dump(ctx, rng):
    """The same functions through `spowtd plot ... --dump` (YAML file in, table out)"""
    from .. import dump_cli

    rec = ctx.rec
    rec.case()
    psy = gen_params.peatclsm_sy(rng)
    pT = gen_params.peatclsm_T(rng)
    params = {'specific_yield': psy, 'transmissivity': pT}
    p = {k: psy[k] for k in ('sd', 'theta_s', 'b', 'psi_s')}
    levels, ref = oh.peatclsm_sy_profile(**p, layers=201)
    lo_cm, hi_cm = rng.uniform(-120, -20), rng.uniform(0, 120)
    rows, err = dump_cli.run_dump(ctx, 'specific-yield', params, lo_cm, hi_cm, rng.randint(3, 40))
    case = {'kind': 'dump', 'params': params, 'range_cm': [lo_cm, hi_cm]}
    if err:
        rec.violation('plot-specific-yield-dump-fails', {'error': err, 'params': params}, case, 'dump')
        return
    scale = max(1e-6, float(np.max(np.abs(ref))))
    for z_cm, v in rows:
        exp = float(np.interp(z_cm * 10, levels, ref))
        if abs(v - exp) > 1e-9 * scale:
            rec.violation('dumped-specific-yield-differs-from-the-profile', {'level_cm': z_cm, 'dumped': v, 'expected': exp, 'params': params}, case, 'dump')
            return
    rec.hit('dumped-sy-values-checked', len(rows))
    top_cm = pT['zeta_max_cm']
    lo_cm, hi_cm = top_cm - rng.uniform(10, 150), top_cm - rng.uniform(0.01, 5)
    rows, err = dump_cli.run_dump(ctx, 'transmissivity', params, lo_cm, hi_cm, rng.randint(3, 30))
    if err:
        rec.violation('plot-transmissivity-dump-fails', {'error': err, 'params': params}, case, 'dump')
        return
    for z_cm, v in rows:
        exp = float(oh.peatclsm_transmissivity(z_cm * 10, pT['Ksmacz0'], pT['alpha'], pT['zeta_max_cm']))
        if abs(v - exp) > 1e-9 * abs(exp):
            rec.violation('dumped-transmissivity-differs-from-the-formula', {'level_cm': z_cm, 'dumped': v, 'expected': exp, 'params': pT}, case, 'dump')
            return
    rec.hit('dumped-T-values-checked', len(rows))


def run(ctx):
    s = SIZES[ctx.tier]
    rng = ctx.rng('dump')
    for _ in range(ctx.share(s.get('dump', 0))):
        check_dump(ctx, rng)
    rng = ctx.rng('sy')
    n = ctx.share(s['sy'])
    for i in range(n):
        if i == 0:
            check_sy(ctx, rng, dict(gen_params.PUBLISHED_SY), published=True)
        elif i in (1, 2):
            p = gen_params.peatclsm_sy(rng)
            p.update(sd=[1e-3, 2.0][i - 1], b=[0.01, 20.0][i - 1])
            check_sy(ctx, rng, p)
        elif i % 4 == 3:
            # the same soil with another microtopography (only sd differs from the previous set)
            p = gen_params.peatclsm_sy(rng)
            check_sy(ctx, rng, p)
            check_sy(ctx, rng, dict(p, sd=float(p['sd']) * rng.choice([0.5, 1.7]) + 0.01))
            ctx.rec.hit('sy-sets-differing-only-in-sd')
        else:
            check_sy(ctx, rng, gen_params.peatclsm_sy(rng))
    rng = ctx.rng('T')
    for i in range(ctx.share(s['T'])):
        check_T(ctx, rng, dict(gen_params.PUBLISHED_T) if i == 0 else gen_params.peatclsm_T(rng))


def replay(ctx, case, module=None):
    rng = core.make_rng('replay')
    if case['kind'] == 'peatclsm_sy':
        check_sy(ctx, rng, case['params'], published=case['params'] == gen_params.PUBLISHED_SY)
    else:
        for _ in range(20):
            check_T(ctx, rng, case['params'])
