"""C17 -- the simulated rise curve is the integral of specific yield"""

import io
import os
import sqlite3

import numpy as np

from .. import core, curves_common, data, gen_params, gen_planted, oracle_hydraulics as oh

PROPERTY = 'C17'
LEVEL = 'exploration'
SHARDS = {'quick': 4, 'thorough': 16}
RULE = (
    'Function level: G-params specific-yield sets of both kinds x increasing level grids (inside, straddling either '
    'end of, entirely beyond, and covering the knot range; uniform and irregular; float and integer dtype) handed to the real '
    'compute_rise_curve.  Oracle: W[j]-W[i] against exact quadrature of the same callable (5-point Gauss-Legendre per '
    'knot interval + rectangles outside; trapezoids on the 201 table points for PEATCLSM), the mean against the '
    'requested mean, non-decrease when sy >= 0 on the range, and invariance of values at shared levels (up to the '
    'mean shift) under grid refinement.  CLI level: planted / noisy datasets with an assembled rise curve x both '
    'parameterisations through `spowtd simulate rise` with and without --observations; the table must list (level '
    'mm, measured storage, simulated storage) of the view average_rising_depth in ascending order, its simulated '
    'column must have the measured column\'s mean and integrate sy between rows, and the --observations vector must '
    'equal the third column.  Non-trivial: grid with >= 1 cell straddling an end of the knot range; distinct by '
    '(parameter digest, grid class).'
)
ASSUMPTIONS = ['quadrature of the repository\'s own specific-yield callable is the reference (C14 / C16 check that callable)']
SIZES = {'quick': dict(fn=1200, cli=28), 'thorough': dict(fn=20000, cli=500)}
REQUIRED = {
    tier: {
        'curves-vs-quadrature': 300,
        'refinements-compared': 300,
        'grids-in-other-containers-compared': 200,
        'grid:straddle-low': 20, 'grid:straddle-high': 20, 'grid:beyond-low': 20, 'grid:beyond-high': 20, 'grid:cover': 20,
        'peatclsm-curves': 20,
        'integer-typed-grids': 20,
        'cli-tables-checked': 8,
        'cli-cases-with-levels-above-a-million-mm': 2,
        'cli-parameter-files-with-specific-yield-only': 2,
        'cli-observation-vectors-checked': 8,
        'cli-output-on-stdout': 4,
    }
    for tier in ('quick', 'thorough')
}
MIN_NONTRIVIAL = {'quick': 150, 'thorough': 5000}


def sy_reference(sy, params):
    """(f, knots): vectorised callable and the breakpoints of its pieces"""
    f = lambda x: np.asarray(sy(np.asarray(x, dtype=float)), dtype=float)
    if params['type'] == 'spline':
        return f, [float(v) for v in params['zeta_knots_mm']]
    return f, [float(v) for v in sy.zeta_knots_mm]


def check_function_case(ctx, rng, params):
    import spowtd.simulate_rise as sim
    import spowtd.specific_yield as sy_mod

    rec = ctx.rec
    rec.case()
    sy = sy_mod.create_specific_yield_function(dict(params))
    f, knots = sy_reference(sy, params)
    grid, mode = gen_params.level_grid(rng, knots[0], knots[-1])
    grid = np.array(grid)
    if rng.random() < 0.2:
        # integer-typed level grid (np.arange(-400, 300, 7) is a natural call)
        lo_i, hi_i = int(np.floor(grid[0])), int(np.ceil(grid[-1])) + 3
        grid = np.arange(lo_i, hi_i, max(1, (hi_i - lo_i) // rng.randint(2, 30)))
        ctx.rec.hit('integer-typed-grids')
    mean = rng.choice([0.0, rng.uniform(-500, 500)])
    case = {'kind': 'rise_fn', 'params': params, 'grid': grid.tolist(), 'mean': mean}
    try:
        W = np.asarray(sim.compute_rise_curve(sy, grid.copy(), mean), dtype=float)
        grid = grid.astype(float)
    except Exception as exc:  # pylint: disable=broad-except
        desc = core.describe_exception(exc)
        if desc['origin'] == 'harness':
            rec.inconclusive_because('harness exception: {}'.format(desc))
        else:
            rec.violation('compute_rise_curve-raises:' + desc['type'], {'exception': desc}, case, 'rise_fn')
        return
    rec.hit('grid:' + mode)
    if params['type'] == 'peatclsm':
        rec.hit('peatclsm-curves')
    fmax = max(1e-6, float(np.max(np.abs(f(np.linspace(knots[0], knots[-1], 201))))))
    scale = fmax * (grid[-1] - grid[0])
    ref = np.array([0.0] + [oh.clamped_integral(f, grid[i - 1], grid[i], knots) for i in range(1, len(grid))]).cumsum()
    d = (W - W[0]) - ref
    if W.shape != grid.shape or float(np.max(np.abs(d))) > 1e-9 * scale:
        i = int(np.argmax(np.abs(d)))
        rec.violation('storage-difference-is-not-the-integral-of-specific-yield',
                      {'grid_class': mode, 'level': float(grid[i]), 'W_minus_W0': float(W[i] - W[0]), 'integral': float(ref[i]), 'scale': scale}, case, 'rise_fn')
        return
    rec.hit('curves-vs-quadrature')
    if abs(float(W.mean()) - mean) > 1e-9 * max(1.0, abs(mean), scale):
        rec.violation('mean-differs-from-the-requested-mean', {'mean': float(W.mean()), 'requested': mean}, case, 'rise_fn')
        return
    if float(np.min(f(np.linspace(grid[0], grid[-1], 400)))) >= 0 and np.any(np.diff(W) < -1e-12 * scale):
        rec.violation('decreases-with-level-although-specific-yield-is-non-negative', {'W': W.tolist()[:10]}, case, 'rise_fn')
        return
    # the same grid in another container: read-only, a strided view, big-endian -- same curve,
    # the caller's grid unchanged
    k = rec.evaluations % 3
    other = grid.copy()
    if k == 0:
        other.setflags(write=False)
    elif k == 1:
        wide = np.empty((len(grid), 2))
        wide[:, 0], wide[:, 1] = grid, -1.0
        other = wide[:, 0]
    else:
        other = grid.astype('>f8')
    form = ['read-only', 'strided view', 'big-endian'][k]
    try:
        W3 = np.asarray(sim.compute_rise_curve(sy, other, mean), dtype=float)
    except Exception as exc:  # pylint: disable=broad-except
        rec.violation('grid-refused-in-another-container', {'form': form, 'exception': core.describe_exception(exc)}, case, 'rise_fn')
        return
    if not np.array_equal(np.asarray(other, dtype=float), grid):
        rec.violation('grid-handed-in-is-modified', {'form': form}, case, 'rise_fn')
        return
    if W3.shape != W.shape or float(np.max(np.abs(W3 - W))) > 1e-12 * max(scale, float(np.max(np.abs(W)))):
        rec.violation('curve-depends-on-the-container-of-the-grid', {'form': form, 'max_difference': float(np.max(np.abs(W3 - W)))}, case, 'rise_fn')
        return
    rec.hit('grids-in-other-containers-compared')
    # refinement
    fine = np.sort(np.concatenate([grid, 0.5 * (grid[:-1] + grid[1:]), [grid[0] + (grid[1] - grid[0]) / 3]]))
    W2 = np.asarray(sim.compute_rise_curve(sy, fine.copy(), 0.0), dtype=float)
    idx = np.searchsorted(fine, grid)
    d2 = (W2[idx] - W2[idx][0]) - (W - W[0])
    if float(np.max(np.abs(d2))) > 1e-9 * scale:
        rec.violation('values-at-shared-levels-change-under-refinement', {'max_change': float(np.max(np.abs(d2))), 'scale': scale}, case, 'rise_fn')
        return
    rec.hit('refinements-compared')
    if mode != 'inside':
        rec.mark_nontrivial(core.digest((params, mode, len(grid))))
        if len(rec.samples) < 2:
            rec.sample({'params': params, 'grid_class': mode, 'grid_mm': grid.tolist()[:6], 'W_mm': W.tolist()[:6], 'quadrature': (ref + W[0]).tolist()[:6]})


def random_params(rng, kind):
    if kind == 'spline':
        return {'specific_yield': gen_params.spline_sy(rng), 'transmissivity': gen_params.spline_T(rng)}
    return {'specific_yield': gen_params.peatclsm_sy(rng), 'transmissivity': dict(gen_params.PUBLISHED_T, zeta_max_cm=300.0)}


def check_cli_case(ctx, rng, index):
    import yaml
    import spowtd.specific_yield as sy_mod

    rec = ctx.rec
    case = gen_planted.gen(rng) if index % 3 else gen_planted.gen_noisy(rng)
    if index % 3 == 2:
        # water level recorded against a distant datum (sea level at a site above 1000 m): levels
        # with seven and more significant digits in the table
        case = dict(case, z=[[t, v + 1250000.0] for t, v in case['z']])
        rec.hit('cli-cases-with-levels-above-a-million-mm')
    db = os.path.join(ctx.workdir, 'r{}.sqlite3'.format(index))
    err = curves_common.make_curves_db(ctx, case, db)
    if err:
        rec.hit('dataset-without-both-curves: ' + err)
        return
    connection = sqlite3.connect(db)
    view = connection.execute('SELECT zeta_mm, mean_crossing_depth_mm FROM average_rising_depth ORDER BY zeta_mm').fetchall()
    connection.close()
    for kind in ('spline', 'peatclsm'):
        rec.case()
        params = random_params(rng, kind)
        if kind == 'spline' and rng.random() < 0.5 and max(v[0] for v in view) - min(v[0] for v in view) > 1.0:
            # knots around the observed levels so that the grid straddles them
            z = [v[0] for v in view]
            lo, hi = min(z), max(z)
            n = len(params['specific_yield']['sy_knots'])
            params['specific_yield']['zeta_knots_mm'] = [lo + (hi - lo) * (0.2 + 0.6 * i / (n - 1)) for i in range(n)]
        if index % 3 == 1:
            # the rise simulation needs the specific yield only: a parameter file without a
            # transmissivity section
            params = {'specific_yield': params['specific_yield']}
            rec.hit('cli-parameter-files-with-specific-yield-only')
        pfile = curves_common.write_yaml(os.path.join(ctx.workdir, 'r{}_{}.yml'.format(index, kind)), params)
        wcase = dict(case, params=params)
        outs = {}
        for obs in (False, True):
            out = os.path.join(ctx.workdir, 'r{}_{}_{}.out'.format(index, kind, int(obs)))
            argv = ['simulate', 'rise', db, pfile] + (['--observations'] if obs else [])
            to_stdout = (index + int(obs)) % 3 == 0
            if index % 4 == 1:
                # (the shared options belong to the `simulate` level of the command line)
                argv = argv[:1] + ['-vv', '--logfile', os.path.join(ctx.workdir, 'r{}.log'.format(index))] + argv[1:]
            if to_stdout:
                # the default: output on standard output
                buf = io.StringIO()
                status, exc = data.cli(argv, stdout=buf)
                with open(out, 'w') as f:
                    f.write(buf.getvalue())
                rec.hit('cli-output-on-stdout')
            else:
                if index % 2 == 0:
                    # the output file exists already and is longer than what will be written (an
                    # earlier run with more levels): it must hold the output of the last run only
                    with open(out, 'w') as f:
                        f.write('stale line of an earlier, longer output\n' * 400)
                    data.cli(argv + ['-o', out])  # the same output file name used again
                    import gc
                    gc.collect()
                    rec.hit('cli-output-file-name-reused')
                status, exc = data.cli(argv + ['-o', out])
            if exc is not None or status != 0:
                desc = core.describe_exception(exc) if exc else {'status': status}
                rec.violation('simulate-rise-fails', {'exception': desc, 'observations': obs}, wcase, 'rise_cli')
                break
            # the output file object is closed when argparse's namespace dies
            import gc
            gc.collect()
            with open(out) as f:
                outs[obs] = f.read()
        if len(outs) < 2:
            continue
        table = yaml.safe_load(outs[False])
        header, rows = table[0], table[1:]
        if header != ['Water level, mm', 'Measured storage, mm', 'Simulated storage, mm']:
            rec.violation('table-header-differs', {'header': header}, wcase, 'rise_cli')
            continue
        if [(r[0], r[1]) for r in rows] != [(z, w) for z, w in view]:
            rec.violation('table-rows-are-not-the-measured-master-curve-in-ascending-order',
                          {'table_first': rows[:3], 'view_first': view[:3], 'n_table': len(rows), 'n_view': len(view)}, wcase, 'rise_cli')
            continue
        sim_col = np.array([r[2] for r in rows], dtype=float)
        meas = np.array([r[1] for r in rows], dtype=float)
        sy = sy_mod.create_specific_yield_function(dict(params['specific_yield']))
        f, knots = sy_reference(sy, params['specific_yield'])
        grid = np.array([r[0] for r in rows], dtype=float)
        ref = np.array([0.0] + [oh.clamped_integral(f, grid[i - 1], grid[i], knots) for i in range(1, len(grid))]).cumsum()
        scale = max(1e-6, float(np.max(np.abs(f(np.linspace(grid[0], grid[-1], 101))))) * (grid[-1] - grid[0]))
        # the column is shifted to the measured mean: differences of printed numbers of magnitude M
        # cannot be better than a few ulps of M, however small the storage itself is
        roundoff = 8 * 2.0 ** -52 * float(np.max(np.abs(sim_col)))
        if float(np.max(np.abs((sim_col - sim_col[0]) - ref))) > 1e-9 * scale + roundoff:
            rec.violation('simulated-column-is-not-the-integral-of-specific-yield', {'scale': scale, 'roundoff_allowance': roundoff}, wcase, 'rise_cli')
            continue
        if abs(sim_col.mean() - meas.mean()) > 1e-9 * max(1.0, abs(meas.mean()), scale):
            rec.violation('simulated-mean-differs-from-measured-mean', {'simulated': float(sim_col.mean()), 'measured': float(meas.mean())}, wcase, 'rise_cli')
            continue
        rec.hit('cli-tables-checked')
        vec = yaml.safe_load(outs[True])
        if not outs[True].startswith('# Rise curve simulation vector\n') or vec != [r[2] for r in rows]:
            rec.violation('observations-vector-differs-from-the-table-column', {'vector_first': (vec or [])[:3], 'column_first': [r[2] for r in rows][:3]}, wcase, 'rise_cli')
            continue
        rec.hit('cli-observation-vectors-checked')
        rec.mark_nontrivial(core.digest(('cli', kind, case['rain'][:30], params)))
    if os.path.exists(db):
        os.remove(db)


def run(ctx):
    s = SIZES[ctx.tier]
    rng = ctx.rng('fn')
    for i in range(ctx.share(s['fn'])):
        params = gen_params.peatclsm_sy(rng) if i % 8 == 0 else gen_params.spline_sy(rng, positive=(i % 3 != 0))
        check_function_case(ctx, rng, params)
    rng = ctx.rng('cli')
    for i in range(ctx.share(s['cli'])):
        check_cli_case(ctx, rng, i)


def replay(ctx, case, module=None):
    rng = core.make_rng('replay')
    if case.get('kind') == 'rise_fn':
        check_function_case(ctx, rng, case['params'])
    else:
        ctx.rec.inconclusive_because('CLI cases regenerate from the seed; rerun the tier with the same seed')
