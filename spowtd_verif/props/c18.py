"""C18 -- the simulated recession curve obeys the water-balance equation"""

import os
import sqlite3

import numpy as np
from scipy import integrate

from .. import core, curves_common, data, gen_params, gen_planted, instrument, oracle_hydraulics as oh
from .c17 import sy_reference

PROPERTY = 'C18'
LEVEL = 'exploration'
SHARDS = {'quick': 4, 'thorough': 16}
RULE = (
    'Function level: G-params (specific yield and transmissivity of both kinds) x (ET, curvature) in {(0,+), (+,0), '
    '(+,+)} x ascending and descending level grids (float and integer dtype) below the transmissivity ceiling, handed to the real '
    'compute_recession_curve.  Oracle: t[j]-t[i] against quad with every knot as break point and epsrel 1e-12 on the '
    'same callables (1e-6 relative + 2e-8 d per cell, the documented stopping rule of the unaided per-cell quad); time increases as level '
    'falls; mean equals the requested mean; values at shared levels unchanged (up to the mean shift) under '
    'refinement and under reversal of the grid; with zero curvature ET * dt = -dW of the real compute_rise_curve.  '
    'CLI level: planted / noisy datasets with time-varying ET (weekly, diurnal, random) and an assembled recession '
    'curve through set-curvature and `spowtd simulate recession` with spline, PEATCLSM and mixed (spline specific yield + '
    'PEATCLSM transmissivity and vice versa) parameter files: a spy on compute_recession_curve records the ET, '
    'curvature and transmissivity callable the command really used; ET must equal the mean of the evapotranspiration '
    'rows over all steps inside the intervals of recession_interval (recomputed from the base tables), curvature '
    'must be m/km2 * 1e-3, transmissivity must be in m2/d; the table must list (level mm, measured d, simulated d) '
    'from the highest to the lowest level and --observations must equal its third column; with zero curvature and '
    'constant specific yield, ET is also read off consecutive rows of the output (black box).  A third of the spline parameter sets of the function-level workload are the previous set with other conductivities / minimum transmissivity / specific yields on the same knot positions (the next step of a calibration in one process).  Non-trivial: ET and '
    'curvature both positive with the grid crossing >= 1 knot of each function; for the command: ET whose first-step '
    'average differs from the interval average by > 5 %.'
)
ASSUMPTIONS = [
    'reference integrals use the repository\'s own specific-yield and transmissivity callables (checked by C14-C16)',
    'ET >= 0, curvature >= 0, not both zero; grids stay below the highest transmissivity knot / PEATCLSM ceiling',
]
SIZES = {'quick': dict(fn=72, cli=12), 'thorough': dict(fn=3000, cli=320)}
REQUIRED = {
    tier: {
        'curves-vs-reference-quadrature': 40,
        'combo:et-only': 8, 'combo:curvature-only': 8, 'combo:both': 15,
        'descending-grids': 10,
        'reversals-compared': 30,
        'refinements-compared': 30,
        'grids-in-other-containers-compared': 20,
        'zero-curvature-water-balance-checked': 8,
        'peatclsm-cases': 5,
        'integer-typed-grids': 4,
        'parameter-sets-sharing-knot-positions-with-the-previous-one': 8,
        'cli-mixed-parameter-kinds': 2,
        'cli-et-checked-against-interval-average': 6,
        'cli-et-first-step-average-differs-by-5-percent': 3,
        'cli-tables-checked': 6,
        'cli-cases-with-negative-night-time-evapotranspiration': 2,
        'second-set-curvature-refused': 1,
        'cli-black-box-et-checked': 1,
    }
    for tier in ('quick', 'thorough')
}
MIN_NONTRIVIAL = {'quick': 20, 'thorough': 800}


def independent_T(pT):
    """Transmissivity in m2/d from the parameters alone (closed forms of
    oracle_hydraulics), so that the reference does not share state with spowtd"""
    if pT['type'] == 'spline':
        knots = [float(v) for v in pT['zeta_knots_mm']]
        K = [float(v) for v in pT['K_knots_km_d']]
        tmin = float(pT['minimum_transmissivity_m2_d'])
        return lambda z: oh.transmissivity_closed_form(float(z), knots, K, tmin)
    return lambda z: float(oh.peatclsm_transmissivity(float(z), pT['Ksmacz0'], pT['alpha'], pT['zeta_max_cm'])) * 86400.0


def reference_dt(sy, T, grid, et, kappa, breaks):
    f = lambda z: float(sy(z)) / (-et - kappa * float(T(z)))
    out = [0.0]
    for a, b in zip(grid[:-1], grid[1:]):
        lo, hi = min(a, b), max(a, b)
        pts = [p for p in breaks if lo < p < hi]
        v, _ = integrate.quad(f, a, b, points=pts or None, epsrel=1e-12, epsabs=0, limit=200)
        out.append(v)
    return np.cumsum(out)


def build_functions(psy, pT):
    import spowtd.specific_yield as sy_mod
    import spowtd.transmissivity as t_mod

    sy = sy_mod.create_specific_yield_function(dict(psy))
    if pT['type'] == 'spline':
        T = t_mod.create_transmissivity_function(dict(pT))
        ceiling = pT['zeta_knots_mm'][-1]
        breaks = sorted(set(psy['zeta_knots_mm']) | set(pT['zeta_knots_mm']))
        return sy, T, ceiling, breaks
    T_s = t_mod.create_transmissivity_function(dict(pT))
    T = lambda z: T_s(z) * 86400.0
    return sy, T, pT['zeta_max_cm'] * 10 - 1.0, [float(v) for v in sy.zeta_knots_mm]


_PREVIOUS_GRID = {}


_PREVIOUS_PARAMS = {}


def make_functions(rng, kind, rec=None):
    if kind == 'spline':
        prev = _PREVIOUS_PARAMS.get('spline')
        if prev is not None and rng.random() < 0.35:
            # the next step of a calibration in one process: the same knot positions, other
            # conductivities / specific yields / minimum transmissivity
            psy, pT = dict(prev[0]), dict(prev[1])
            pT['K_knots_km_d'] = [k * 10 ** rng.uniform(-1.5, 1.5) for k in pT['K_knots_km_d']]
            pT['minimum_transmissivity_m2_d'] = pT['minimum_transmissivity_m2_d'] * rng.choice([0.5, 1.0, 3.0])
            if rng.random() < 0.5:
                psy['sy_knots'] = [min(1.0, max(0.01, v * rng.uniform(0.7, 1.3))) for v in psy['sy_knots']]
            if rec is not None:
                rec.hit('parameter-sets-sharing-knot-positions-with-the-previous-one')
        else:
            psy = gen_params.spline_sy(rng)
            lo, hi = psy['zeta_knots_mm'][0], psy['zeta_knots_mm'][-1]
            pT = gen_params.spline_T(rng, z_lo=lo - rng.uniform(0, 0.5) * (hi - lo))
        _PREVIOUS_PARAMS['spline'] = (psy, pT)
    else:
        psy = gen_params.peatclsm_sy(rng) if rng.random() < 0.5 else dict(gen_params.PUBLISHED_SY)
        pT = dict(gen_params.PUBLISHED_T, zeta_max_cm=rng.choice([1.0, 5.0, 30.0]), Ksmacz0=10 ** rng.uniform(-2, 1))
    sy, T, ceiling, breaks = build_functions(psy, pT)
    return psy, pT, sy, T, ceiling, breaks


def check_function_case(ctx, rng, kind, combo, fixed=None):
    import spowtd.simulate_recession as sim
    import spowtd.simulate_rise as sim_rise

    rec = ctx.rec
    rec.case()
    if fixed is not None:
        psy, pT = fixed['sy'], fixed['T']
        sy, T, ceiling, breaks = build_functions(psy, pT)
        return verify_function_case(ctx, rng, fixed['param_kind'], combo, psy, pT, sy, T, breaks,
                                    np.array(fixed['grid']), fixed['et'], fixed['kappa'], fixed['mean'])
    psy, pT, sy, T, ceiling, breaks = make_functions(rng, kind, rec)
    lo = psy['zeta_knots_mm'][0] if kind == 'spline' else -600.0
    hi = min(ceiling, psy['zeta_knots_mm'][-1] + 50.0 if kind == 'spline' else ceiling)
    if hi <= lo:
        hi = ceiling
        lo = ceiling - 200.0
    grid, mode = gen_params.level_grid(rng, lo - 0.3 * (hi - lo), hi, n=rng.randint(3, 16), beyond=False)
    grid = np.array([g for g in grid if g < ceiling])
    prev = _PREVIOUS_GRID.get(kind)
    if prev is not None and rng.random() < 0.4 and prev.max() < ceiling:
        # the same levels as the previous parameter set (two sites simulated on one grid in one process)
        grid = prev.copy()
        rec.hit('grids-shared-with-the-previous-parameter-set')
    _PREVIOUS_GRID[kind] = np.sort(np.array(grid, dtype=float))
    if len(grid) < 3:
        return
    if rng.random() < 0.2 and grid[-1] - grid[0] > 8:
        # integer-typed level grid, e.g. np.arange(0, -401, -50)
        lo_i, hi_i = int(np.ceil(grid[0])), int(np.floor(grid[-1]))
        grid = np.arange(lo_i, hi_i + 1, max(1, (hi_i - lo_i) // rng.randint(2, 12)))
        grid = grid[grid < ceiling]
        rec.hit('integer-typed-grids')
        if len(grid) < 3:
            return
    descending = rng.random() < 0.4
    if descending:
        grid = grid[::-1].copy()
        rec.hit('descending-grids')
    et = 0.0 if combo == 'curvature-only' else rng.choice([0.5, 3.0, 4.15, rng.uniform(0.1, 8)])
    kappa = 0.0 if combo == 'et-only' else rng.choice([2.36e-3, 1e-3, rng.uniform(1e-4, 1e-2)])
    mean = rng.choice([0.0, 19.0, rng.uniform(-50, 50)])
    return verify_function_case(ctx, rng, kind, combo, psy, pT, sy, T, breaks, grid, et, kappa, mean)


def verify_function_case(ctx, rng, kind, combo, psy, pT, sy, T, breaks, grid, et, kappa, mean):
    import spowtd.simulate_recession as sim
    import spowtd.simulate_rise as sim_rise

    rec = ctx.rec
    descending = len(grid) > 1 and grid[0] > grid[-1]
    case = {'kind': 'rec_fn', 'sy': psy, 'T': pT, 'grid': grid.tolist(), 'grid_is_integer': bool(np.issubdtype(grid.dtype, np.integer)), 'et': et, 'kappa': kappa, 'mean': mean, 'param_kind': kind, 'combo': combo}
    rec.hit('combo:' + combo)
    if kind == 'peatclsm':
        rec.hit('peatclsm-cases')
    call = lambda g, m: np.asarray(sim.compute_recession_curve(sy, T, np.array(g), m, kappa, et), dtype=float)
    try:
        t = call(grid, mean)
    except Exception as exc:  # pylint: disable=broad-except
        desc = core.describe_exception(exc)
        if desc['origin'] == 'harness':
            rec.inconclusive_because('harness exception: {}'.format(desc))
        else:
            rec.violation('compute_recession_curve-raises:' + desc['type'], {'exception': desc}, case, 'rec_fn')
        return
    called_grid = grid
    grid = grid.astype(float)
    ref = reference_dt(sy, independent_T(pT), grid, et, kappa, breaks)
    scale = max(1e-12, float(np.max(np.abs(ref))))
    d = (t - t[0]) - ref
    rec.note_max('max relative difference to reference quadrature', float(np.max(np.abs(d))) / scale)
    # the implementation integrates each cell with an unaided quad, whose
    # default stopping rule is max(epsabs = 1.49e-8, epsrel = 1.49e-8 * |I|)
    abs_tol = 2e-8 * len(grid)
    if float(np.max(np.abs(d))) > 1e-6 * scale + abs_tol:
        i = int(np.argmax(np.abs(d)))
        rec.violation('elapsed-time-difference-is-not-the-water-balance-integral',
                      {'level': float(grid[i]), 't_minus_t0': float(t[i] - t[0]), 'integral': float(ref[i]), 'scale': scale}, case, 'rec_fn')
        return
    rec.hit('curves-vs-reference-quadrature')
    # the same grid in another container: read-only, a strided view, big-endian -- same curve,
    # the caller's grid unchanged
    k = rec.evaluations % 3
    other = grid.copy()
    if k == 0:
        other.setflags(write=False)
    elif k == 1:
        wide = np.empty((len(grid), 2))
        wide[:, 0], wide[:, 1] = grid, -1.0
        other = wide[:, 0]
    else:
        other = grid.astype('>f8')
    form = ['read-only', 'strided view', 'big-endian'][k]
    try:
        t3 = np.asarray(sim.compute_recession_curve(sy, T, other, mean, kappa, et), dtype=float)
    except Exception as exc:  # pylint: disable=broad-except
        rec.violation('grid-refused-in-another-container', {'form': form, 'exception': core.describe_exception(exc)}, case, 'rec_fn')
        return
    if not np.array_equal(np.asarray(other, dtype=float), grid):
        rec.violation('grid-handed-in-is-modified', {'form': form}, case, 'rec_fn')
        return
    if t3.shape != t.shape or float(np.max(np.abs(t3 - t))) > 1e-9 * scale + abs_tol:
        rec.violation('curve-depends-on-the-container-of-the-grid', {'form': form, 'max_difference': float(np.max(np.abs(t3 - t)))}, case, 'rec_fn')
        return
    rec.hit('grids-in-other-containers-compared')
    # time increases as the level falls (sy >= 0 is not guaranteed between knots: test only where the reference agrees)
    order = np.argsort(grid)
    ts = t[order]
    if float(np.min(np.asarray(sy(np.linspace(grid.min(), grid.max(), 200))))) > 0 and np.any(np.diff(ts) > 1e-9 * scale + abs_tol):
        rec.violation('elapsed-time-does-not-increase-as-the-level-falls', {'levels': grid[order].tolist()[:8], 't': ts.tolist()[:8]}, case, 'rec_fn')
        return
    if abs(float(t.mean()) - mean) > 1e-9 * max(1.0, abs(mean), scale):
        rec.violation('mean-differs-from-the-requested-mean', {'mean': float(t.mean()), 'requested': mean}, case, 'rec_fn')
        return
    # reversal
    t_rev = call(called_grid[::-1], 0.0)[::-1]
    d = (t_rev - t_rev[0]) - (t - t[0])
    if float(np.max(np.abs(d))) > 2e-6 * scale + 2 * abs_tol:
        rec.violation('values-at-shared-levels-change-when-the-grid-is-reversed', {'max_change': float(np.max(np.abs(d))), 'scale': scale}, case, 'rec_fn')
        return
    rec.hit('reversals-compared')
    # refinement
    fine = np.sort(np.concatenate([grid, 0.5 * (grid[:-1] + grid[1:])]))
    if descending:
        fine = fine[::-1]
    t_fine = call(fine, 0.0)
    idx = [int(np.where(fine == g)[0][0]) for g in grid]
    d = (t_fine[idx] - t_fine[idx][0]) - (t - t[0])
    if float(np.max(np.abs(d))) > 2e-6 * scale + 4 * abs_tol:
        rec.violation('values-at-shared-levels-change-under-refinement', {'max_change': float(np.max(np.abs(d))), 'scale': scale}, case, 'rec_fn')
        return
    rec.hit('refinements-compared')
    if kappa == 0.0:
        W = np.asarray(sim_rise.compute_rise_curve(sy, np.array(grid, dtype=float), 0.0), dtype=float)
        lhs = et * (t - t[0])
        rhs = -(W - W[0])
        sc = max(1e-9, float(np.max(np.abs(rhs))))
        if float(np.max(np.abs(lhs - rhs))) > 1e-6 * sc + et * abs_tol:
            rec.violation('zero-curvature-elapsed-time-times-ET-is-not-the-storage-released', {'max_difference': float(np.max(np.abs(lhs - rhs))), 'scale': sc}, case, 'rec_fn')
            return
        rec.hit('zero-curvature-water-balance-checked')
    inside = [b for b in breaks if grid.min() < b < grid.max()]
    if combo == 'both' and inside:
        rec.mark_nontrivial(core.digest((psy, pT, grid.tolist(), et, kappa)))
        if len(rec.samples) < 2:
            rec.sample({'specific_yield': psy if kind == 'spline' else dict(psy), 'transmissivity': pT, 'grid_mm': grid.tolist()[:6],
                        'et_mm_d': et, 'curvature_km': kappa, 't_d': t.tolist()[:6], 'reference': (ref + t[0]).tolist()[:6]})


def own_interval_et(connection):
    """mean ET (mm/d) over all time steps inside the intervals of recession_interval"""
    starts = [r[0] for r in connection.execute('SELECT start_epoch FROM recession_interval')]
    zi = dict(connection.execute("SELECT start_epoch, thru_epoch FROM zeta_interval WHERE interval_type='interstorm'"))
    et = connection.execute('SELECT from_epoch, thru_epoch, evapotranspiration_mm_h FROM evapotranspiration ORDER BY from_epoch').fetchall()
    vals = []
    first = []
    for s in starts:
        t = zi[s]
        rows = [v for a, b, v in et if a >= s and b <= t]
        vals.extend(rows)
        first.extend(v for a, b, v in et if a == s)
    import math
    return 24.0 * math.fsum(vals) / len(vals), 24.0 * math.fsum(first) / max(1, len(first)), len(vals)


def check_cli_case(ctx, rng, index):
    import yaml
    import spowtd.simulate_recession as sim
    import spowtd.transmissivity as t_mod

    rec = ctx.rec
    et_mode = ['diurnal', 'condensation', 'random', 'weekly'][index % 4]
    case = gen_planted.gen(rng, et_mode=et_mode) if index % 5 else dict(gen_planted.gen_noisy(rng))
    if case.get('kind') == 'planted' and et_mode == 'condensation':
        rec.hit('cli-cases-with-negative-night-time-evapotranspiration')
    black_box = index % 2 == 0
    curvature = 0.0 if black_box else rng.choice([2.36, 1.0, rng.uniform(0.1, 5)])
    db = os.path.join(ctx.workdir, 'q{}.sqlite3'.format(index))
    err = curves_common.make_curves_db(ctx, case, db)
    if err:
        rec.hit('dataset-without-both-curves: ' + err)
        return
    status, exc = data.cli(['set-curvature', db, repr(curvature)])
    if exc is not None or status != 0:
        rec.violation('set-curvature-fails', {'exception': core.describe_exception(exc) if exc else status}, case, 'rec_cli')
        return
    if index % 3 == 1:
        # the user sets the curvature again with another value: refused (the first value stays
        # in force) or accepted (the new value is the one to simulate with)
        second = curvature + rng.choice([0.75, 1.5])
        status, exc = data.cli(['set-curvature', db, repr(second)])
        if exc is None and status == 0:
            curvature = second
            rec.hit('second-set-curvature-accepted')
        else:
            rec.hit('second-set-curvature-refused')
    connection = sqlite3.connect(db)
    view = connection.execute('SELECT zeta_mm, elapsed_time_s FROM average_recession_time ORDER BY zeta_mm').fetchall()
    et_own, et_first, nsteps = own_interval_et(connection)
    connection.close()
    if et_own < 0:
        # outside the domain: night-time condensation outweighs the day inside the recession intervals;
        # the simulator refuses a negative mean evapotranspiration (through an assert statement)
        rec.hit('cli-cases-with-negative-mean-evapotranspiration (outside the domain)')
        os.remove(db)
        return
    zlo, zhi = min(v[0] for v in view), max(v[0] for v in view)
    kinds = ['spline'] if black_box else ['spline', 'peatclsm', rng.choice(['spline-sy+peatclsm-T', 'peatclsm-sy+spline-T'])]
    for kind in kinds:
        rec.case()
        sy_kind = 'spline' if kind.startswith('spline') else 'peatclsm'
        T_kind = 'peatclsm' if kind.endswith('peatclsm-T') or kind == 'peatclsm' else 'spline'
        if '+' in kind:
            rec.hit('cli-mixed-parameter-kinds')
        if sy_kind == 'spline':
            n = rng.randint(4, 7)
            sy_const = rng.choice([0.1, 0.25, 0.5])
            psy = {'type': 'spline', 'zeta_knots_mm': [zlo - 10 + (zhi - zlo + 20) * i / (n - 1) for i in range(n)],
                   'sy_knots': [sy_const] * n if black_box else sorted(rng.uniform(0.05, 0.9) for _ in range(n))}
        else:
            psy = dict(gen_params.PUBLISHED_SY)
        if T_kind == 'spline':
            m = rng.randint(2, 5)
            pT = {'type': 'spline', 'zeta_knots_mm': [zlo - 50 + (zhi - zlo + 100) * i / (m - 1) for i in range(m)],
                  'K_knots_km_d': sorted(10 ** rng.uniform(-3, 2) for _ in range(m)), 'minimum_transmissivity_m2_d': 10 ** rng.uniform(-2, 1)}
        else:
            pT = dict(gen_params.PUBLISHED_T, zeta_max_cm=zhi / 10 + rng.choice([1.0, 20.0]))
        params = {'specific_yield': psy, 'transmissivity': pT}
        pfile = curves_common.write_yaml(os.path.join(ctx.workdir, 'q{}_{}.yml'.format(index, kind.replace('+', '_'))), params)
        wcase = dict(case, params=params, curvature=curvature)
        spy = {}
        contracts = instrument.Contracts()

        def post(c, args, kwargs, result, spy=spy):
            names = ['specific_yield', 'transmissivity_m2_d', 'zeta_grid_mm', 'mean_elapsed_time_d', 'curvature_km', 'et_mm_d']
            seen = dict(zip(names, args))
            seen.update(kwargs)
            spy.update(seen)
            spy['result'] = np.asarray(result, dtype=float).copy()
            return None

        contracts.wrap(sim, 'compute_recession_curve', post, snapshot=False)
        outs = {}
        try:
            for obs in (False, True):
                out = os.path.join(ctx.workdir, 'q{}_{}_{}.out'.format(index, kind.replace('+', '_'), int(obs)))
                argv = ['simulate', 'recession', db, pfile] + (['--observations'] if obs else [])
                if index % 4 == 1:
                    argv = argv[:1] + ['-vv', '--logfile', os.path.join(ctx.workdir, 'q{}.log'.format(index))] + argv[1:]
                if (index + int(obs)) % 3 == 0:
                    import io
                    buf = io.StringIO()  # the default: output on standard output
                    status, exc = data.cli(argv, stdout=buf)
                    with open(out, 'w') as f:
                        f.write(buf.getvalue())
                    rec.hit('cli-output-on-stdout')
                else:
                    if index % 2 == 0:
                        # the same output file name used again (as a PEST model run does): the file
                        # must hold the output of the last run only -- also when what was there is longer
                        with open(out, 'w') as f:
                            f.write('stale line of an earlier, longer output\n' * 400)
                        data.cli(argv + ['-o', out])
                        import gc
                        gc.collect()
                        rec.hit('cli-output-file-name-reused')
                    status, exc = data.cli(argv + ['-o', out])
                if exc is not None or status != 0:
                    desc = core.describe_exception(exc) if exc else {'status': status}
                    rec.violation('simulate-recession-fails', {'exception': desc, 'observations': obs}, wcase, 'rec_cli')
                    break
                import gc
                gc.collect()
                with open(out) as f:
                    outs[obs] = f.read()
        finally:
            contracts.uninstall()
        if len(outs) < 2:
            continue
        # --- what the command handed to compute_recession_curve
        if 'et_mm_d' not in spy:
            rec.inconclusive_because('spy on compute_recession_curve never fired')
            continue
        w = {'et_used_mm_d': float(spy['et_mm_d']), 'et_interval_average_mm_d': et_own, 'et_first_step_average_mm_d': et_first, 'steps_in_recession_intervals': nsteps}
        if abs(spy['et_mm_d'] - et_own) > 1e-9 * max(1.0, abs(et_own)):
            rec.violation('ET-used-is-not-the-average-over-the-recession-intervals', w, wcase, 'rec_cli')
            continue
        rec.hit('cli-et-checked-against-interval-average')
        if abs(et_first - et_own) > 0.05 * et_own:
            rec.hit('cli-et-first-step-average-differs-by-5-percent')
            rec.mark_nontrivial(core.digest(('cli', kind, case['rain'][:30], case['et'][:30])))
        if abs(spy['curvature_km'] - curvature * 1e-3) > 1e-15:
            rec.violation('curvature-used-is-not-m_km2-times-1e-3', {'used': float(spy['curvature_km']), 'set': curvature}, wcase, 'rec_cli')
            continue
        Tref = t_mod.create_transmissivity_function(dict(pT))
        zt = 0.5 * (zlo + zhi)
        factor = 86400.0 if T_kind == 'peatclsm' else 1.0
        if abs(float(spy['transmissivity_m2_d'](zt)) - float(Tref(zt)) * factor) > 1e-9 * abs(float(Tref(zt)) * factor):
            rec.violation('transmissivity-used-is-not-in-m2-per-day', {'used': float(spy['transmissivity_m2_d'](zt)), 'expected': float(Tref(zt)) * factor}, wcase, 'rec_cli')
            continue
        # --- table
        table = yaml.safe_load(outs[False])
        header, rows = table[0], table[1:]
        if header != ['Water level, mm', 'Measured elapsed time, d', 'Simulated elapsed time, d']:
            rec.violation('table-header-differs', {'header': header}, wcase, 'rec_cli')
            continue
        exp = [(z, t / 86400.0) for z, t in reversed(view)]
        ok = len(rows) == len(exp) and all(
            abs(r[0] - e[0]) <= 1e-9 * max(1.0, abs(e[0])) and abs(r[1] - e[1]) <= 1e-12 * max(1.0, abs(e[1])) for r, e in zip(rows, exp))
        if not ok:
            rec.violation('table-rows-are-not-the-measured-master-curve-from-highest-to-lowest-level-in-mm',
                          {'table_first': rows[:3], 'expected_first': exp[:3], 'n_table': len(rows), 'n_expected': len(exp)}, wcase, 'rec_cli')
            continue
        sim_col = [r[2] for r in rows]
        if not np.allclose(sim_col, spy['result'][::-1], rtol=1e-12, atol=0):
            rec.violation('simulated-column-is-not-the-computed-curve-reversed', {'column_first': sim_col[:3], 'computed_last': spy['result'][-3:].tolist()}, wcase, 'rec_cli')
            continue
        meas = np.array([r[1] for r in rows])
        if abs(np.mean(sim_col) - meas.mean()) > 1e-9 * max(1.0, abs(meas.mean())):
            rec.violation('simulated-mean-differs-from-measured-mean', {'simulated': float(np.mean(sim_col)), 'measured': float(meas.mean())}, wcase, 'rec_cli')
            continue
        vec = yaml.safe_load(outs[True])
        if not outs[True].startswith('# Recession curve simulation vector\n') or vec != sim_col:
            rec.violation('observations-vector-differs-from-the-table-column', {'vector_first': (vec or [])[:3], 'column_first': sim_col[:3]}, wcase, 'rec_cli')
            continue
        rec.hit('cli-tables-checked')
        if black_box and len(rows) >= 3:
            # curvature 0 and constant Sy: ET = Sy * (level drop) / (time elapsed) between any two rows
            sy_const = psy['sy_knots'][0]
            ests = [sy_const * (a[0] - b[0]) / (b[2] - a[2]) for a, b in zip(rows[:-1], rows[1:]) if b[2] != a[2]]
            if ests and max(abs(e - et_own) for e in ests) > 1e-6 * et_own:
                rec.violation('ET-read-off-the-output-is-not-the-interval-average', {'estimates': ests[:4], 'interval_average': et_own}, wcase, 'rec_cli')
                continue
            rec.hit('cli-black-box-et-checked')
        if len(rec.samples) < 4:
            rec.sample({'workload': 'simulate recession', 'kind': kind, 'et_mode': case.get('kind') + '/' + et_mode, 'spy': w, 'curvature_m_km2': curvature, 'table_first_rows': rows[:3]})
    if os.path.exists(db):
        os.remove(db)


def run(ctx):
    s = SIZES[ctx.tier]
    rng = ctx.rng('fn')
    combos = ['et-only', 'curvature-only', 'both', 'both']
    for i in range(ctx.share(s['fn'])):
        check_function_case(ctx, rng, 'peatclsm' if i % 6 == 5 else 'spline', combos[i % 4])
    rng = ctx.rng('cli')
    for i in range(ctx.share(s['cli'])):
        check_cli_case(ctx, rng, i)


def replay(ctx, case, module=None):
    rng = core.make_rng('replay')
    if case.get('kind') == 'rec_fn':
        if case.get('grid_is_integer'):
            case['grid'] = [int(v) for v in case['grid']]
        check_function_case(ctx, rng, case['param_kind'], case.get('combo', 'both'), fixed=case)
    else:
        ctx.rec.inconclusive_because('CLI cases of C18 regenerate from the seed; rerun the tier with the same seed')
