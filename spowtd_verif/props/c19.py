"""C19 -- calibration files and simulation output describe the same problem"""

import gc
import os
import sqlite3

from .. import core, curves_common, data, gen_params, gen_planted, pest

PROPERTY = 'C19'
LEVEL = 'exploration'
SHARDS = {'quick': 4, 'thorough': 16}
RULE = (
    'Planted / noisy datasets (both master curves assembled, curvature set; 5-400 levels) x both parameterisations '
    '(spline with 4-14 specific-yield knots and 2-12 conductivity knots, random values printed with up to 17 '
    'significant digits; PEATCLSM inside the PEST bounds) x {rise, curves}: `spowtd pestfiles ... tpl|ins|pst` and '
    '`spowtd simulate rise|recession [--observations]` are run through the CLI entry point and their texts are '
    'interpreted by an own mini-interpreter of the PEST formats.  Checked: NPAR/NOBS/NPARGP/NPRIOR/NOBSGP against '
    'the counted lines; parameter names (case-folded, as PEST does) against the template placeholders in order; the '
    'k-th observation text parses to the bit-identical measured value of the k-th row of the simulator\'s table; the '
    'value the instruction file extracts for e_k from the concatenated --observations output equals the simulated '
    'value of row k; the template filled with the original values loads to the original parameters.  A targeted '
    'family chooses a constant specific yield such that a simulated storage falls in (-1e-3, 0) (the class of the '
    'recorded finding).  Library sessions: the same requests through the Python functions on one open connection -- the rise file set is generated while only the rise curve exists, the recession curve and curvature are then added on that connection and the curves and rise file sets are generated again; every set must describe the dataset as it is at that moment.  Non-trivial: >= 10 rise and >= 10 recession observations; distinct by (dataset, parameter '
    'file).'
)
ASSUMPTIONS = [
    'PEST semantics as implemented in spowtd_verif/pest.py (fixed-column reads are 1-based and inclusive; parameter names are case-insensitive)',
    'a filled parameter value is written the way PyYAML prints a float (shortest round-trip repr with a decimal point)',
]
SIZES = {'quick': dict(ds=12, targeted=2, library=8), 'thorough': dict(ds=400, targeted=32, library=160)}
REQUIRED = {
    tier: {
        'file-sets-checked': 16,
        'parameter-sets-whose-conductivity-knots-end-below-the-curve': 1,
        'datasets-with-more-than-512-rise-levels': 1,
        'library-sessions-with-files-before-and-after-the-recession-curve': 2,
        'control-file-counts-checked': 16,
        'observations-compared-bit-for-bit': 500,
        'extracted-values-compared': 500,
        'template-round-trips': 16,
        'kind:spline/rise': 2, 'kind:spline/curves': 2, 'kind:peatclsm/rise': 2, 'kind:peatclsm/curves': 2,
        'targeted-datasets': 1,
        'file-sets-checked-after-a-repeated-step': 2,
        'cli-output-file-name-reused': 10,
        'spline-sets-with-10+-knots': 2,
    }
    for tier in ('quick', 'thorough')
}
MIN_NONTRIVIAL = {'quick': 8, 'thorough': 300}


def yaml_float(v):
    if isinstance(v, int):
        return str(v)
    t = repr(float(v)).lower()
    if '.' not in t and 'e' in t:
        t = t.replace('e', '.0e', 1)
    return t


_CALLS = [0]


_LIBRARY = {'connection': None}


def run_library_to_text(argv):
    """The same request through the Python functions on the caller's one open connection
    (what user_interface.pestfiles / simulate dispatch to)"""
    import io

    import spowtd.pestfiles as pest_mod
    import spowtd.simulate_recession as sim_rec
    import spowtd.simulate_rise as sim_rise

    connection = _LIBRARY['connection']
    buf = io.StringIO()
    try:
        if argv[0] == 'pestfiles':
            _, what, _, pfile, t = argv
            with open(pfile) as f:
                (pest_mod.generate_rise_pestfiles if what == 'rise' else pest_mod.generate_curves_pestfiles)(
                    connection=connection, parameter_file=f, outfile_type=t, configuration_file=None, outfile=buf)
        else:
            curve, pfile = argv[1], argv[3]
            obs = '--observations' in argv
            with open(pfile) as f:
                if curve == 'rise':
                    sim_rise.simulate_rise(connection=connection, parameters=f, outfile=buf, observations_only=obs)
                else:
                    sim_rec.dump_simulated_recession(connection=connection, parameter_file=f, outfile=buf, observations_only=obs)
    except Exception as exc:  # pylint: disable=broad-except
        connection.rollback()
        return None, core.describe_exception(exc)
    return buf.getvalue(), None


def run_cli_to_text(ctx, argv, name):
    import io

    if _LIBRARY['connection'] is not None:
        return run_library_to_text(argv)
    out = os.path.join(ctx.workdir, name)
    _CALLS[0] += 1
    argv = list(argv)
    if _CALLS[0] % 5 == 0:
        argv = argv[:1] + ['-v', '--logfile', os.path.join(ctx.workdir, 'pest.log')] + argv[1:]
    if argv[0] == 'pestfiles' and _CALLS[0] % 4 == 2:
        # the documented -c option (configuration values for the PEST files)
        cfg = os.path.join(ctx.workdir, 'pest_configuration.yml')
        with open(cfg, 'w') as f:
            f.write('model_command: bash simulate.sh\nnoptmax: 30\nprecision: 8\n')
        argv = argv + ['-c', cfg]
        ctx.rec.hit('pestfiles-calls-with-a-configuration-file')
    if _CALLS[0] % 3 == 0:
        # the default: output on standard output
        buf = io.StringIO()
        status, exc = data.cli(argv, stdout=buf)
        ctx.rec.hit('cli-output-on-stdout')
        if exc is not None or status != 0:
            return None, (core.describe_exception(exc) if exc else {'status': status})
        return buf.getvalue(), None
    if _CALLS[0] % 4 == 1:
        # the same output file name used again (a PEST run, a re-run set-up script): the file
        # must hold the output of the last run only
        with open(out, 'w') as f:
            f.write('stale line of an earlier, longer output\n' * 400)
        data.cli(argv + ['-o', out])
        gc.collect()
        ctx.rec.hit('cli-output-file-name-reused')
    status, exc = data.cli(argv + ['-o', out])
    gc.collect()
    if exc is not None or status != 0:
        return None, (core.describe_exception(exc) if exc else {'status': status})
    with open(out, newline='') as f:
        return f.read(), None


def parameter_values(params):
    """{lower-case placeholder name: original value}"""
    vals = {}
    sy, T = params['specific_yield'], params['transmissivity']
    if sy['type'] == 'spline':
        for i, v in enumerate(sy['sy_knots']):
            vals['sy_knot_{}'.format(i + 1)] = v
    else:
        for k in ('sd', 'theta_s', 'b', 'psi_s'):
            vals[k] = sy[k]
    if T['type'] == 'spline':
        for i, v in enumerate(T['K_knots_km_d']):
            vals['k_knot_{}'.format(i + 1)] = v
        vals['t_min'] = T['minimum_transmissivity_m2_d']
    else:
        for k in ('Ksmacz0', 'alpha'):
            vals[k.lower()] = T[k]
    return vals


def check_file_set(ctx, db, params, pfile, kind, what, case, tag):
    """kind: spline / peatclsm; what: rise / curves.  Returns True when the
    whole set was checked."""
    import yaml

    rec = ctx.rec
    rec.case()
    wcase = dict(case, params=params, what=what)
    texts = {}
    for t in ('tpl', 'ins', 'pst'):
        text, err = run_cli_to_text(ctx, ['pestfiles', what, db, pfile, t], '{}_{}.{}'.format(tag, what, t))
        if err:
            rec.violation('pestfiles-fails:' + t, {'exception': err, 'what': what}, wcase, 'pest')
            return False
        texts[t] = text.replace('\r\n', '\n')
    sim_obs = ''
    table = []
    for curve in (['rise'] if what == 'rise' else ['rise', 'recession']):
        o, err = run_cli_to_text(ctx, ['simulate', curve, db, pfile, '--observations'], '{}_{}_obs.yml'.format(tag, curve))
        if err and curve == 'recession' and case.get('conductivity_knots_end_below_the_curve') and err.get('type') == 'NotImplementedError':
            # levels above the highest conductivity knot: the simulator refuses the whole request
            # (loudly: a calibration run stops), it does not describe another problem
            rec.hit('recession-simulation-refused-above-the-highest-conductivity-knot')
            return True
        if err and curve == 'recession' and err.get('type') == 'AssertionError' and (err.get('site') or [None])[0] == 'simulate_recession' \
                and str(err.get('message', '')).lstrip().startswith('-'):
            # outside the domain: the evapotranspiration averaged over the recession intervals is negative
            # (night-time condensation outweighs the day in those intervals); the simulator says so and stops
            rec.hit('recession-simulation-refused-negative-mean-evapotranspiration (outside the domain)')
            return True
        if err:
            rec.violation('simulate-fails', {'exception': err, 'curve': curve}, wcase, 'pest')
            return False
        tb, err = run_cli_to_text(ctx, ['simulate', curve, db, pfile], '{}_{}_tab.yml'.format(tag, curve))
        if err:
            rec.violation('simulate-fails', {'exception': err, 'curve': curve}, wcase, 'pest')
            return False
        sim_obs += o
        table += [(curve,) + tuple(r) for r in yaml.safe_load(tb)[1:]]
    rec.hit('kind:{}/{}'.format(kind, what))
    if kind == 'spline' and (len(params['specific_yield']['sy_knots']) >= 10 or len(params['transmissivity']['K_knots_km_d']) >= 10):
        rec.hit('spline-sets-with-10+-knots')
    # ---- control file
    try:
        pst = pest.pst_parse(texts['pst'])
        marker, spaces = pest.tpl_parse(texts['tpl'])
    except Exception as exc:  # pylint: disable=broad-except
        rec.violation('generated-file-does-not-parse', {'error': repr(exc)[:300]}, wcase, 'pest')
        return False
    counts = {'NPAR': (pst['npar'], len(pst['pars'])), 'NOBS': (pst['nobs'], len(pst['obs'])),
              'NPARGP': (pst['npargp'], len(pst['groups'])), 'NPRIOR': (pst['nprior'], len(pst['prior'])),
              'NOBSGP': (pst['nobsgp'], len(pst['obsgroups']))}
    bad = {k: v for k, v in counts.items() if v[0] != v[1]}
    if bad:
        rec.violation('declared-count-differs-from-counted-lines', {'declared_vs_counted': bad, 'what': what, 'kind': kind}, wcase, 'pest')
        return False
    if not set(pst['par_groups_used']) <= set(pst['groups']) or not {o[2] for o in pst['obs']} <= set(pst['obsgroups']):
        rec.violation('group-used-but-not-declared', {'par_groups': pst['groups'], 'used': sorted(set(pst['par_groups_used']))}, wcase, 'pest')
        return False
    rec.hit('control-file-counts-checked')
    names_tpl = [n.lower() for n, _ in spaces]
    names_pst = [n.lower() for n in pst['pars']]
    if names_tpl != names_pst:
        rec.violation('parameter-names-differ-from-template-placeholders', {'template': names_tpl, 'control': names_pst}, wcase, 'pest')
        return False
    # ---- observations
    if len(pst['obs']) != len(table):
        rec.violation('number-of-observations-differs-from-simulator-rows', {'control': len(pst['obs']), 'simulator_rows': len(table)}, wcase, 'pest')
        return False
    for k, ((name, text, grp), row) in enumerate(zip(pst['obs'], table)):
        if name != 'e{}'.format(k + 1) or float(text) != row[2] or grp != ('storageobs' if row[0] == 'rise' else 'timeobs'):
            rec.violation('observation-is-not-the-measured-value-of-that-row',
                          {'k': k + 1, 'name': name, 'text': text, 'group': grp, 'simulator_row': row}, wcase, 'pest')
            return False
    rec.hit('observations-compared-bit-for-bit', len(table))
    recs = [r[3] for r in table if r[0] == 'recession']
    if recs and recs != sorted(recs):
        rec.hit('file-sets-with-non-monotone-simulated-recession')
    if params['transmissivity'].get('zeta_max_cm') == 0 and params['transmissivity']['type'] == 'peatclsm':
        rec.hit('file-sets-with-zero-ceiling')
    # levels: rise ascending, recession from highest to lowest
    rl = [r[1] for r in table if r[0] == 'rise']
    cl = [r[1] for r in table if r[0] == 'recession']
    if rl != sorted(rl) or cl != sorted(cl, reverse=True):
        rec.violation('simulator-rows-not-in-the-documented-order', {'rise_levels': rl[:5], 'recession_levels': cl[:5]}, wcase, 'pest')
        return False
    # ... and they are the levels of the measured master curves in the dataset (the k-th control-file
    # observation and the k-th simulated value belong to the same water level)
    con = _LIBRARY['connection'] if _LIBRARY['connection'] is not None else sqlite3.connect(db)
    try:
        want_rise = [r[0] for r in con.execute('SELECT zeta_mm FROM average_rising_depth ORDER BY zeta_mm')]
        want_rec = [r[0] for r in con.execute('SELECT zeta_mm FROM average_recession_time ORDER BY zeta_mm DESC')] if cl else []
    finally:
        if _LIBRARY['connection'] is None:
            con.close()
    # (the recession simulator converts to cm and back: equal to an ulp or two, not bit for bit)
    differs = lambda a, b: abs(a - b) > 1e-9 * max(1.0, abs(b))
    if len(rl) != len(want_rise) or len(cl) != len(want_rec) or any(differs(a, b) for a, b in zip(rl + cl, want_rise + want_rec)):
        bad = next(((a, b) for a, b in zip(rl + cl, want_rise + want_rec) if differs(a, b)), None)
        rec.violation('simulator-rows-are-not-at-the-levels-of-the-measured-master-curve',
                      {'first_difference_listed_vs_measured': bad, 'rows': [len(rl), len(cl)], 'levels': [len(want_rise), len(want_rec)]}, wcase, 'pest')
        return False
    rec.hit('simulator-levels-compared-with-the-master-curve', len(rl) + len(cl))
    # ---- instruction file applied to the simulator's --observations output
    try:
        vals, where = pest.ins_apply(texts['ins'], sim_obs)
    except Exception as exc:  # pylint: disable=broad-except
        rec.violation('instruction-file-cannot-be-applied', {'error': repr(exc)[:300]}, wcase, 'pest')
        return False
    if sorted(vals, key=lambda n: int(n[1:])) != [o[0] for o in pst['obs']]:
        rec.violation('instruction-file-observations-differ-from-control-file', {'ins': len(vals), 'pst': len(pst['obs'])}, wcase, 'pest')
        return False
    ok = True
    for k, row in enumerate(table):
        name = 'e{}'.format(k + 1)
        if vals[name] != row[3]:
            line, a, b = where[name]
            w = {'observation': name, 'extracted': vals[name], 'simulated': row[3], 'output_line': line, 'columns': [a, b], 'what': what, 'kind': kind}
            # classifier: the printed value is wider than the field the instruction reads
            # (the recorded finding is about the 22-character field of
            # columns 3:24 and a value that needs more than 22 characters)
            full_value = len(line) > b and float(line[a - 1:]) == row[3]
            if full_value and (a, b) == (3, 24) and len(line[a - 1:].strip()) > 22:
                key = 'ins-field-narrower-than-value'
            elif full_value:
                key = 'instruction-field-truncates-the-printed-value'
            else:
                key = 'instruction-file-extracts-a-different-value'
            rec.violation(key, w, wcase, 'pest')
            ok = False
            break
    if ok:
        rec.hit('extracted-values-compared', len(table))
    # ---- template round trip
    original = yaml.safe_load(open(pfile))
    try:
        filled = pest.tpl_fill(texts['tpl'], {k: v for k, v in parameter_values(original).items()}, yaml_float)
        loaded = yaml.safe_load(filled)
    except Exception as exc:  # pylint: disable=broad-except
        rec.violation('template-cannot-be-filled', {'error': repr(exc)[:300]}, wcase, 'pest')
        return False
    if loaded != original:
        rec.violation('filled-template-differs-from-the-original-parameters', {'filled': loaded, 'original': original}, wcase, 'pest')
        return False
    rec.hit('template-round-trips')
    rec.hit('file-sets-checked')
    n_rise = sum(1 for r in table if r[0] == 'rise')
    n_rec = len(table) - n_rise
    if what == 'curves' and n_rise >= 10 and n_rec >= 10:
        rec.mark_nontrivial(core.digest((case['rain'][:40], case['z'][:20], params)))
        if len(rec.samples) < 2:
            rec.sample({'kind': kind, 'what': what, 'control_counts': {k: v[0] for k, v in counts.items()}, 'parameters': names_pst,
                        'first_observations': pst['obs'][:3], 'first_simulator_rows': table[:3],
                        'first_output_lines': sim_obs.split('\n')[:4]})
    return ok


def random_params(rng, kind, zlo, zhi):
    if kind == 'spline':
        n = rng.choice([rng.randint(4, 9), rng.randint(10, 14)])
        m = rng.choice([rng.randint(2, 7), rng.randint(10, 12)])
        psy = {'type': 'spline', 'zeta_knots_mm': sorted(round(rng.uniform(zlo - 100, zhi + 50), rng.choice([1, 2, 4])) for _ in range(n)),
               'sy_knots': [rng.choice([round(rng.uniform(0.01, 1.0), 4), rng.uniform(0.01, 1.0)]) for _ in range(n)]}
        if rng.random() < 0.3:
            # strongly oscillating knot values: the interpolating cubic overshoots and can dip
            # below zero between knots, so the simulated curves need not be monotone
            lo_v, hi_v = rng.choice([(0.02, 0.6), (0.01, 0.9), (0.05, 0.5)])
            psy['sy_knots'] = [hi_v if (i // 2) % 2 == 0 else lo_v for i in range(n)]
            psy['zeta_knots_mm'] = [round(zlo - 20 + (zhi - zlo + 40) * i / (n - 1), 2) for i in range(n)]
        while len(set(psy['zeta_knots_mm'])) < n:
            psy['zeta_knots_mm'] = sorted(round(rng.uniform(zlo - 100, zhi + 50), 3) for _ in range(n))
        zk = sorted(rng.uniform(zlo - 200, zhi + 500) for _ in range(m))
        zk[-1] = max(zk[-1], zhi + 10.0)
        zk = sorted(set(round(v, 3) for v in zk))
        if len(zk) < 2:
            zk = [zlo - 50.0, zhi + 50.0]
        pT = {'type': 'spline', 'zeta_knots_mm': zk, 'K_knots_km_d': [rng.choice([10 ** rng.uniform(-4, 4), round(10 ** rng.uniform(-3, 3), 3)]) for _ in zk],
              'minimum_transmissivity_m2_d': rng.choice([7.442, 10 ** rng.uniform(-3, 2)])}
        return {'specific_yield': psy, 'transmissivity': pT}
    return {'specific_yield': gen_params.peatclsm_sy(rng),
            'transmissivity': {'type': 'peatclsm', 'Ksmacz0': 10 ** rng.uniform(-3, 2), 'alpha': rng.choice([3, 2.5, rng.uniform(1.1, 8)]),
                               # a ceiling at the peat surface (0 / 0.0) whenever every level is below it
                               'zeta_max_cm': rng.choice([0, 0.0]) if (zhi < -1.0 and rng.random() < 0.5) else round(zhi / 10 + rng.choice([1.0, 25.0]), 2)}}


def prepare_dataset(ctx, rng, index, planted=True):
    case = gen_planted.gen(rng) if planted else gen_planted.gen_noisy(rng)
    if index % 3 == 1 and index < 1000:
        # a fine grid: more than 512 levels in the master curves (long observation vectors)
        zs = [v for _, v in case['z']]
        span = max(zs) - min(zs)
        fine = [g for g in (0.5, 0.25, 0.2, 0.1, 0.05, 0.02) if span / g >= 600]
        case['grid_step'] = fine[0] if fine else span / 650.0
    db = os.path.join(ctx.workdir, 'k{}.sqlite3'.format(index))
    err = curves_common.make_curves_db(ctx, case, db, curvature=rng.choice([2.36, 0.5, 1.0]))
    if err:
        ctx.rec.hit('dataset-without-both-curves: ' + err)
        return None, None, None
    connection = sqlite3.connect(db)
    levels = [r[0] for r in connection.execute('SELECT zeta_mm FROM average_recession_time UNION SELECT zeta_mm FROM average_rising_depth')]
    rise = connection.execute('SELECT zeta_mm, mean_crossing_depth_mm FROM average_rising_depth ORDER BY zeta_mm').fetchall()
    connection.close()
    return case, db, (min(levels), max(levels), rise)


def run_dataset(ctx, rng, index):
    case, db, info = prepare_dataset(ctx, rng, index, planted=index % 3 != 2)
    for _ in range(4):
        # the fine-grid class is required: draw again when a record gave no curves or too few levels
        if index % 3 != 1 or (db is not None and len(info[2]) > 512):
            break
        if db is not None:
            os.remove(db)
        case, db, info = prepare_dataset(ctx, rng, index, planted=True)
    if db is None:
        return
    zlo, zhi, rise_rows = info
    if len(rise_rows) > 512:
        ctx.rec.hit('datasets-with-more-than-512-rise-levels')
    for kind in ('spline', 'peatclsm'):
        params = random_params(rng, kind, zlo, zhi)
        pfile = curves_common.write_yaml(os.path.join(ctx.workdir, 'k{}_{}.yml'.format(index, kind)), params)
        for what in ('rise', 'curves'):
            check_file_set(ctx, db, params, pfile, kind, what, case, 'k{}_{}'.format(index, kind))
    if index % 3 == 0:
        # a spline transmissivity whose knots end below the top of the recession curve: either the
        # simulation is refused, or files and simulator output still describe the same problem
        (rtop,) = sqlite3.connect(db).execute('SELECT max(zeta_mm) FROM average_recession_time').fetchone()
        short = random_params(rng, 'spline', zlo, zhi)
        zk = [z for z in short['transmissivity']['zeta_knots_mm'] if z < rtop - 1.0]
        if len(zk) < 2:
            zk = [zlo - 60.0, rtop - 2.0]
        short['transmissivity']['zeta_knots_mm'] = zk
        short['transmissivity']['K_knots_km_d'] = short['transmissivity']['K_knots_km_d'][:len(zk)]
        while len(short['transmissivity']['K_knots_km_d']) < len(zk):
            short['transmissivity']['K_knots_km_d'].append(1.0)
        sfile = curves_common.write_yaml(os.path.join(ctx.workdir, 'k{}_short.yml'.format(index)), short)
        ctx.rec.hit('parameter-sets-whose-conductivity-knots-end-below-the-curve')
        check_file_set(ctx, db, short, sfile, 'spline', 'curves', dict(case, conductivity_knots_end_below_the_curve=True), 'k{}_short'.format(index))
    if index % 2 == 0:
        # the user changes the grid step on the finished dataset and regenerates the files:
        # refused (nothing changes) or accepted -- either way the files must still agree
        status, exc = data.cli(['set-zeta-grid', db, '-d', data.num_arg(case['grid_step'] * 2, index)])
        accepted = exc is None and status == 0
        ctx.rec.hit('repeated-set-zeta-grid-' + ('accepted' if accepted else 'refused'))
        keys_before = set(v['key'] for v in ctx.rec.violations)
        check_file_set(ctx, db, params, pfile, kind, 'curves', dict(case, session='set-zeta-grid again'), 'k{}_again'.format(index))
        ctx.rec.hit('file-sets-checked-after-a-repeated-step')
    os.remove(db)


def run_library_session(ctx, rng, index):
    """Library use: one open connection for the whole session.  Files for the rise
    calibration are generated when only the rise curve exists; then the recession curve is
    assembled on the same connection and the file sets are generated again -- each set must
    describe the dataset as it is at that moment"""
    import spowtd.recession as recession_mod
    import spowtd.rise as rise_mod
    import spowtd.set_curvature as sc

    rec = ctx.rec
    case = gen_planted.gen(rng) if index % 3 != 2 else gen_planted.gen_noisy(rng)
    connection, _, exc = curves_common.build_dataset(ctx, case, 'function')
    if exc is not None:
        if connection is not None:
            connection.close()
        rec.hit('library-session: dataset could not be built')
        return
    _LIBRARY['connection'] = connection
    try:
        if curves_common.run_curve(connection, 'rise') is not None:
            rec.hit('library-session: no rise curve')
            return
        connection.commit()
        rise = connection.execute('SELECT zeta_mm FROM average_rising_depth').fetchall()
        zlo, zhi = min(r[0] for r in rise), max(r[0] for r in rise)
        kind = ['spline', 'peatclsm'][index % 2]
        params = random_params(rng, kind, zlo, zhi)
        pfile = curves_common.write_yaml(os.path.join(ctx.workdir, 'lib{}_{}.yml'.format(index, kind)), params)
        rec.hit('library-sessions')
        if not check_file_set(ctx, None, params, pfile, kind, 'rise', dict(case, session='library: rise files before the recession curve exists'), 'lib{}'.format(index)):
            return
        if curves_common.run_curve(connection, 'recession') is not None:
            rec.hit('library-session: no recession curve')
            return
        sc.set_curvature(connection, rng.choice([2.36, 0.5, 1.0]))
        connection.commit()
        levels = [r[0] for r in connection.execute('SELECT zeta_mm FROM average_recession_time UNION SELECT zeta_mm FROM average_rising_depth')]
        params = random_params(rng, kind, min(levels), max(levels))
        pfile = curves_common.write_yaml(os.path.join(ctx.workdir, 'lib{}_{}_b.yml'.format(index, kind)), params)
        for what in ('curves', 'rise'):
            if not check_file_set(ctx, None, params, pfile, kind, what, dict(case, session='library: files after the recession curve was added on the same connection'),
                                  'lib{}b'.format(index)):
                return
        rec.hit('library-sessions-with-files-before-and-after-the-recession-curve')
    finally:
        _LIBRARY['connection'] = None
        connection.close()


def run_targeted(ctx, rng, index):
    """Constant specific yield chosen so that one simulated storage value
    falls just below zero: the printed value then needs 23+ characters"""
    import numpy as np

    case, db, info = prepare_dataset(ctx, rng, 1000 + index)
    if db is None:
        return
    zlo, zhi, rise = info
    z = np.array([r[0] for r in rise])
    m = float(np.mean([r[1] for r in rise]))
    zbar = float(z.mean())
    S = None
    for k in range(len(z)):
        if abs(z[k] - zbar) < 1e-9:
            continue
        cand = float((-m - 3e-5) / (z[k] - zbar))
        if 0.01 < cand < 1:
            S = cand
            break
    if S is None:
        ctx.rec.hit('targeted: no admissible constant specific yield for this dataset')
        os.remove(db)
        return
    params = {'specific_yield': {'type': 'spline', 'zeta_knots_mm': [zlo - 1000.0, zlo - 500.0, zhi + 500.0, zhi + 1000.0], 'sy_knots': [S] * 4},
              'transmissivity': {'type': 'spline', 'zeta_knots_mm': [zlo - 1000.0, zhi + 1000.0], 'K_knots_km_d': [0.01, 1.0], 'minimum_transmissivity_m2_d': 1.0}}
    pfile = curves_common.write_yaml(os.path.join(ctx.workdir, 'kt{}.yml'.format(index)), params)
    ctx.rec.hit('targeted-datasets')
    check_file_set(ctx, db, params, pfile, 'spline', 'rise', case, 'kt{}'.format(index))
    os.remove(db)


def run(ctx):
    s = SIZES[ctx.tier]
    rng = ctx.rng('pest')
    for i in range(ctx.share(s['ds'])):
        run_dataset(ctx, rng, i)
    rng = ctx.rng('library')
    for i in range(ctx.share(s.get('library', 0))):
        run_library_session(ctx, rng, i)
    rng = ctx.rng('targeted')
    for i in range(ctx.share(s['targeted'])):
        run_targeted(ctx, rng, i)


def replay(ctx, case, module=None):
    params = case.get('params')
    what = case.get('what', 'rise')
    if not params:
        ctx.rec.inconclusive_because('no parameters in the replay file')
        return
    db = os.path.join(ctx.workdir, 'replay.sqlite3')
    err = curves_common.make_curves_db(ctx, case, db, curvature=2.36)
    if err:
        ctx.rec.inconclusive_because('dataset could not be rebuilt: ' + err)
        return
    pfile = curves_common.write_yaml(os.path.join(ctx.workdir, 'replay.yml'), params)
    check_file_set(ctx, db, params, pfile, params['specific_yield']['type'], what, case, 'replay')
