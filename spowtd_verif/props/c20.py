"""C20 -- each workflow step is all-or-nothing and independent steps commute"""

import itertools
import os
import shutil
import signal
import sqlite3

from .. import core, data, faults, gen_planted

PROPERTY = 'C20'
LEVEL = 'fault_enumeration'
SHARDS = {'quick': 4, 'thorough': 16}
RULE = (
    'Planted datasets with >= 3 gap-free stretches are loaded, then each of the steps classify, set-zeta-grid, '
    'set-curvature, rise, recession is run through spowtd.user_interface.main under a sqlite3 connection factory '
    'that logs every execute / executemany / executescript / commit.  For EVERY statement index of the fault-free '
    'trace an sqlite3.OperationalError is injected before and after the statement, and the statement is aborted part-way by '
    'SQLite itself (progress handler returning non-zero after 20 virtual-machine steps); the process is SIGKILLed (forked '
    'child) before and after statement indices (quick: every 3rd, thorough: every one) and, from outside, at random '
    'instants of wall-clock (6 / 60 per step: also inside a statement or inside the commit); executemany calls are '
    'interrupted after r parameter rows (quick: first, middle, last; thorough: every row).  After each fault the '
    'logical dump of the file (sorted rows of every table, read through a fresh connection so that a hot journal is '
    'rolled back as the next command would) must equal the dump before the step or the dump of a clean run, and a '
    're-run of the step must end in the clean result.  Histories: all 12 orders of {classify, set-zeta-grid, '
    'set-curvature} x {rise, recession}, each with 0-3 failing attempts interleaved (duplicate step, injected fault, '
    'kill; after a completed step also a plain repeat, a repeat hitting an injected error, a repeat with an argument the '
    'step rejects such as -d 0 or an off-grid reference -- each failing attempt must leave the dump unchanged), must end in '
    'the same dump.  Long record: one record of 230 000 (thorough: 400 000) time steps -- more changed pages than the page cache of SQLite holds, so that pages of the unfinished transaction reach the dataset file before the commit -- is classified and the process killed at four late statement boundaries and at 3 (16) arbitrary instants in the second half of the step; content compared by per-table row counts and digests.  Non-trivial: fault point after the first write of the step; distinct (dataset, '
    'step, index, mode) counted.'
)
ASSUMPTIONS = [
    'faults are injected at the Python sqlite3 API boundary (statement granularity); SIGKILL of the process stands for a crash, the file system is assumed to honour SQLite\'s journal',
    'exhaustive over the statement indices of the datasets driven, not over datasets',
]
EXHAUSTIVE = {'quick': False, 'thorough': True}
SIZES = {'quick': dict(datasets=2, kill_every=3, rows='sample', histories=12, timed_kills=6, long_steps=230000, long_timed_kills=3),
         'thorough': dict(datasets=8, kill_every=1, rows='all', histories=12, timed_kills=60, long_steps=400000, long_timed_kills=16)}
REQUIRED = {
    tier: {
        'exception-faults-injected': 200,
        'kill-faults-injected': 60,
        'timed-kills-while-running': 5,
        'interrupt-faults-injected': 40,
        'row-faults-injected': 6,
        'faults-after-first-write': 200,
        'reruns-after-fault-checked': 300,
        'histories-compared': 12,
        'histories-with-failed-attempts': 6,
        'failed-repeats-left-the-dataset-unchanged': 6,
        'step:classify': 1, 'step:set-zeta-grid': 1, 'step:set-curvature': 1, 'step:rise': 1, 'step:recession': 1,
        'commit-statements-seen': 5,
        'rejected-argument-attempts-checked': 2,
        'datasets-with-a-reading-isolated-between-two-outages': 1,
        'long-record:kills-at-statement-boundaries': 3,
        'long-record:reruns-after-kill-checked': 4,
    }
    for tier in ('quick', 'thorough')
}
MIN_NONTRIVIAL = {'quick': 150, 'thorough': 3000}

STEPS = [
    ('classify', lambda c: ['classify', 'X', '-s', repr(c['sthr']), '-j', repr(c['jthr'])]),
    ('set-zeta-grid', lambda c: ['set-zeta-grid', 'X', '-d', repr(c['grid_step'])]),
    ('set-curvature', lambda c: ['set-curvature', 'X', '1.5']),
    ('rise', lambda c: ['rise', 'X']),
    ('recession', lambda c: ['recession', 'X']),
]


def dump(path):
    connection = faults.plain_connect(path)
    try:
        return data.dump(connection)
    finally:
        connection.close()


def run_step(argv, db, at=None, mode=None, row=None):
    import gc

    faults.reset(at, mode, row)
    try:
        status, exc = data.cli([db if a == 'X' else a for a in argv])
    finally:
        n = faults.STATE['n']
        log = list(faults.STATE['log'])
        rows = dict(faults.STATE['rows'])
        fired = faults.STATE['fired']
        faults.disable()
    if exc is not None:
        # the traceback keeps the step's connection (and its locks) alive; a
        # real command would have exited, so describe the exception and let go
        desc = core.describe_exception(exc)
        exc.__traceback__ = None
        exc = FailedStep(desc)
    gc.collect()
    return status, exc, n, log, rows, fired


class FailedStep(Exception):
    def __init__(self, desc):
        super().__init__(desc['message'])
        self.desc = desc


def run_step_killed(argv, db, at, mode, row=None):
    """Run the step in a forked child that SIGKILLs itself at the fault point.
    Returns the child's wait status"""
    pid = os.fork()
    if pid == 0:
        try:
            faults.reset(at, mode, row)
            data.cli([db if a == 'X' else a for a in argv])
        finally:
            os._exit(0)
    _, status = os.waitpid(pid, 0)
    return status


def run_step_killed_after(argv, db, delay_s):
    """Run the step in a forked child and SIGKILL it from outside after
    delay_s seconds of wall-clock (anywhere, also in the middle of a statement
    or of the commit).  Returns True if the child was still running when killed"""
    import signal
    import time

    pid = os.fork()
    if pid == 0:
        try:
            faults.disable()
            data.cli([db if a == 'X' else a for a in argv])
        finally:
            os._exit(0)
    time.sleep(delay_s)
    try:
        os.kill(pid, signal.SIGKILL)
    except ProcessLookupError:
        pass
    _, status = os.waitpid(pid, 0)
    return os.WIFSIGNALED(status)


def fresh_copy(src, dst):
    for f in (dst, dst + '-journal', dst + '-wal', dst + '-shm'):
        if os.path.exists(f):
            os.remove(f)
    shutil.copy(src, dst)


def make_dataset(ctx, rng, index):
    """A planted dataset with >= 3 gap-free stretches on which both curves
    assemble (checked by a dry run), loaded into a file through the CLI"""
    from .. import curves_common

    case = None
    for _ in range(200):
        small = ctx.tier == 'quick'
        cand = gen_planted.gen(rng, gaps=2, n_events=rng.randint(4, 6) if small else rng.randint(5, 9), step=rng.choice([1800, 3600]),
                               grid_step=rng.choice([2.0, 2.5, 5.0]) if small else rng.choice([1.0, 2.0, 2.5]))
        if len(cand['rain']) >= (170 if small else 260) or len(cand['dropped']) < 2:
            continue
        # one reading isolated between two outages (a data interval of a single sample)
        zt = [t for t, _ in cand['z']]
        step_s = cand['step']
        inner = [k for k in range(3, len(zt) - 3) if zt[k + 2] - zt[k - 2] == 4 * step_s]
        if inner:
            k = rng.choice(inner)
            cand = dict(cand, z=[p for j, p in enumerate(cand['z']) if j not in (k - 1, k + 1)], isolated_reading=zt[k])
        probe = os.path.join(ctx.workdir, 'probe.sqlite3')
        if curves_common.make_curves_db(ctx, cand, probe) is None:
            os.remove(probe)
            case = cand
            break
    if case is None:
        return None, None
    if 'isolated_reading' in case:
        ctx.rec.hit('datasets-with-a-reading-isolated-between-two-outages')
    paths = data.write_case_files(case, ctx.workdir, 'a{}'.format(index))
    base = os.path.join(ctx.workdir, 'a{}_base.sqlite3'.format(index))
    if os.path.exists(base):
        os.remove(base)
    status, exc = data.cli(['load', base, '-p', paths[0], '-e', paths[1], '-z', paths[2], '--timezone', 'UTC'])
    if exc is not None or status != 0:
        return None, None
    return case, base


def enumerate_step_faults(ctx, case, name, argv, cur, tag, sizes):
    """All fault points of one step starting from database file `cur`.
    Returns the path of the cleanly stepped database (or None)"""
    rec = ctx.rec
    clean = os.path.join(ctx.workdir, '{}_{}_clean.sqlite3'.format(tag, name))
    work = os.path.join(ctx.workdir, '{}_{}_t.sqlite3'.format(tag, name))
    fresh_copy(cur, clean)
    status, exc, N, log, rows, _ = run_step(argv, clean)
    if exc is not None or status != 0:
        rec.hit('step-failed-without-fault (C06 reports it): ' + name)
        return None
    rec.hit('step:' + name)
    rec.hit('statements:' + name, N)
    rec.hit('commit-statements-seen', sum(1 for k, _ in log if k == 'commit'))
    pre = dump(cur)
    post = dump(clean)
    if pre == post:
        rec.inconclusive_because('step {} changed nothing'.format(name))
        return clean
    first_write = next((i + 1 for i, (k, sql) in enumerate(log) if sql.upper().startswith(('INSERT', 'UPDATE', 'DELETE')) or k.startswith('executemany')), 1)
    scase = {'dataset': case, 'step': name, 'argv': argv}

    def verdict(label, at, mode, row=None):
        """After the fault: state must be pre or post; rerun must give post"""
        got = dump(work)
        w = {'step': name, 'statement_index': at, 'of': N, 'mode': mode, 'row': row, 'statement': log[at - 1][1] if at - 1 < len(log) else None}
        if got != pre and got != post:
            changed = [t for t in got if got[t] != pre.get(t)]
            partial = [t for t in got if got[t] != post.get(t)]
            rec.violation('mixed-state-after-{}:{}'.format(label, name), dict(w, tables_changed=changed, tables_incomplete=partial), dict(scase, fault=[at, mode, row]), 'fault')
            return
        state = 'pre' if got == pre else 'post'
        rec.hit('state-after-fault:' + state)
        status2, exc2, *_ = run_step(argv, work)
        again = dump(work)
        if again != post:
            rec.violation('rerun-after-{}-does-not-reach-the-clean-result:{}'.format(label, name),
                          dict(w, state_after_fault=state, rerun_exception=exc2.desc if exc2 else None), dict(scase, fault=[at, mode, row]), 'fault')
            return
        rec.hit('reruns-after-fault-checked')
        if at >= first_write:
            rec.hit('faults-after-first-write')
            rec.mark_nontrivial('{}|{}|{}|{}|{}'.format(tag, name, at, mode, row))

    for at in range(1, N + 1):
        for mode in ('exc-before', 'exc-after'):
            rec.case()
            fresh_copy(cur, work)
            status, exc, _, _, _, fired = run_step(argv, work, at, mode)
            if not fired:
                rec.inconclusive_because('fault {} {} of {} never fired'.format(at, mode, name))
                continue
            if exc is None and status == 0:
                rec.violation('injected-error-swallowed:' + name, {'statement_index': at, 'mode': mode}, dict(scase, fault=[at, mode, None]), 'fault')
                continue
            rec.hit('exception-faults-injected')
            verdict('error', at, mode)
        if log[at - 1][0] in ('execute', 'executemany'):
            # SQLite aborts the statement itself after a few VM steps
            rec.case()
            fresh_copy(cur, work)
            status, exc, _, _, _, fired = run_step(argv, work, at, 'interrupt')
            if fired and (exc is not None or status != 0):
                rec.hit('interrupt-faults-injected')
                verdict('interrupt', at, 'interrupt')
            elif fired:
                rec.violation('interrupted-statement-swallowed:' + name, {'statement_index': at}, dict(scase, fault=[at, 'interrupt', None]), 'fault')
            else:
                rec.hit('interrupts-too-late (statement finished within the step budget)')
        if (at - 1) % sizes['kill_every'] == 0 or at == N:
            for mode in ('kill-before', 'kill-after'):
                rec.case()
                fresh_copy(cur, work)
                st = run_step_killed(argv, work, at, mode)
                if not (os.WIFSIGNALED(st) and os.WTERMSIG(st) == 9):
                    rec.inconclusive_because('child of {} {} {} was not killed (status {})'.format(name, at, mode, st))
                    continue
                rec.hit('kill-faults-injected')
                verdict('kill', at, mode)
    # kills at arbitrary instants (wall-clock timer, not statement boundaries): the timing is
    # only a way of choosing crash points, the verdict is on the state found afterwards
    import time
    t0 = time.time()
    fresh_copy(cur, work)
    run_step(argv, work)
    t_clean = max(0.02, time.time() - t0)
    krng = core.make_rng(ctx.seed, 'timed-kills', tag, name)
    for _ in range(sizes.get('timed_kills', 6)):
        rec.case()
        fresh_copy(cur, work)
        killed = run_step_killed_after(argv, work, krng.uniform(0.0, 1.1 * t_clean))
        rec.hit('timed-kills-while-running' if killed else 'timed-kills-after-completion')
        verdict('timed-kill', 1, 'timed-kill')
    # rows of executemany
    for idx, nrows in sorted(rows.items()):
        if nrows < 1:
            continue
        picks = range(nrows) if sizes['rows'] == 'all' else sorted({0, nrows // 2, nrows - 1})
        for r in picks:
            for mode in ('exc-row', 'kill-row'):
                if mode == 'kill-row' and sizes['rows'] != 'all' and r != nrows // 2:
                    continue
                rec.case()
                fresh_copy(cur, work)
                if mode == 'exc-row':
                    status, exc, _, _, _, fired = run_step(argv, work, idx, mode, r)
                    if not fired or (exc is None and status == 0):
                        rec.inconclusive_because('row fault {}:{} of {} never fired'.format(idx, r, name))
                        continue
                else:
                    st = run_step_killed(argv, work, idx, mode, r)
                    if not (os.WIFSIGNALED(st) and os.WTERMSIG(st) == 9):
                        rec.inconclusive_because('child of {} row {}:{} was not killed'.format(name, idx, r))
                        continue
                rec.hit('row-faults-injected')
                verdict('row-' + ('error' if mode == 'exc-row' else 'kill'), idx, mode, r)
    bad_first = {'set-zeta-grid': ['set-zeta-grid', 'X', '-d', '0'],
                 'classify': ['classify', 'X', '-s', repr(case['sthr']), '-j', 'nan'],
                 'rise': ['rise', 'X', '--reference-zeta-mm={!r}'.format(case['grid_step'] * 0.5)],
                 'recession': ['recession', 'X', '--reference-zeta-mm={!r}'.format(case['grid_step'] * 1000000.0)]}.get(name)
    if bad_first:
        # a first attempt that fails on its own (an argument the step cannot work with)
        rec.case()
        fresh_copy(cur, work)
        status, exc, *_ = run_step(bad_first, work)
        if exc is not None or status != 0:
            got = dump(work)
            if got != pre:
                rec.violation('mixed-state-after-a-rejected-argument:' + name, {'argv': bad_first, 'tables_changed': [t for t in got if got[t] != pre.get(t)]},
                              dict(scase, fault=['bad-argument', None, None]), 'fault')
            else:
                status2, exc2, *_ = run_step(argv, work)
                if dump(work) != post:
                    rec.violation('rerun-after-a-rejected-argument-does-not-reach-the-clean-result:' + name, {'argv': bad_first}, dict(scase, fault=['bad-argument', None, None]), 'fault')
                else:
                    rec.hit('rejected-argument-attempts-checked')
        else:
            rec.hit('bad-argument-accepted (not a failed attempt): ' + name)
    if len(rec.samples) < 3:
        rec.sample({'step': name, 'statements': N, 'trace_first': log[:6], 'trace_last': log[-3:], 'executemany_rows': rows,
                    'tables_written': [t for t in post if post[t] != pre.get(t)]})
    if os.path.exists(work):
        os.remove(work)
    return clean


def run_histories(ctx, rng, case, base, tag, nhist):
    rec = ctx.rec
    A = [s for s in STEPS if s[0] in ('classify', 'set-zeta-grid', 'set-curvature')]
    B = [s for s in STEPS if s[0] in ('rise', 'recession')]
    orders = [(pa, pb) for pa in itertools.permutations(A) for pb in itertools.permutations(B)]
    work = os.path.join(ctx.workdir, '{}_hist.sqlite3'.format(tag))
    ref = None
    ref_order = None
    for k, (pa, pb) in enumerate(orders[:nhist]):
        rec.case()
        fresh_copy(base, work)
        history = []
        failed_attempts = 0
        for name, mk in list(pa) + list(pb):
            argv = mk(case)
            # failing attempts before the real one
            for _ in range(rng.choice([0, 0, 1, 2]) if k else 0):
                kind = rng.choice(['fault', 'kill'])
                at = rng.randint(1, 12)
                if kind == 'fault':
                    status, exc, _, _, _, fired = run_step(argv, work, at, rng.choice(['exc-before', 'exc-after']))
                    history.append((name, 'fault@{}'.format(at), 'failed' if exc else 'completed'))
                    if exc is not None:
                        failed_attempts += 1
                    else:
                        break
                else:
                    run_step_killed(argv, work, at, 'kill-before')
                    history.append((name, 'kill@{}'.format(at), 'killed'))
                    failed_attempts += 1
            status, exc, *_ = run_step(argv, work)
            history.append((name, 'run', 'failed:' + exc.desc['type'] if exc else 'ok'))
            if rng.random() < 0.6 and k:
                # attempts made after the step has succeeded: a plain repeat, a repeat that
                # hits an error part-way, a repeat with an argument the step rejects --
                # whatever fails must change nothing
                before = dump(work)
                kind = rng.choice(['again', 'again-with-fault', 'again-bad-argument'])
                if kind == 'again':
                    status, exc, *_ = run_step(argv, work)
                elif kind == 'again-with-fault':
                    status, exc, *_ = run_step(argv, work, rng.randint(1, 6), rng.choice(['exc-before', 'exc-after']))
                else:
                    bad = {'classify': ['classify', 'X', '-s', 'nan', '-j', repr(case['jthr'] * 2)],
                           'set-zeta-grid': ['set-zeta-grid', 'X', '-d', '0'],
                           'set-curvature': ['set-curvature', 'X', '2.5'],
                           'rise': ['rise', 'X', '--reference-zeta-mm={!r}'.format(case['grid_step'] * 0.5)],
                           'recession': ['recession', 'X', '--reference-zeta-mm={!r}'.format(case['grid_step'] * 1000000.0)]}[name]
                    status, exc, *_ = run_step(bad, work)
                failed = exc is not None or status != 0
                history.append((name, kind, 'failed' if failed else 'ok'))
                if failed:
                    failed_attempts += 1
                    if dump(work) != before:
                        rec.violation('failed-attempt-after-a-completed-step-changed-the-dataset:' + name,
                                      {'attempt': kind, 'history': history}, {'dataset': case, 'history': history}, 'history')
                        break
                    rec.hit('failed-repeats-left-the-dataset-unchanged')
        got = dump(work)
        if ref is None:
            ref = got
            ref_order = history
            if not got.get('recession_interval') or not got.get('rising_interval'):
                rec.inconclusive_because('reference history did not assemble both curves')
                return
        elif got != ref:
            rec.violation('final-content-depends-on-history',
                          {'tables': [t for t in got if got[t] != ref.get(t)], 'history': history, 'reference_history': ref_order},
                          {'dataset': case, 'history': history}, 'history')
            continue
        rec.hit('histories-compared')
        if failed_attempts:
            rec.hit('histories-with-failed-attempts')
            rec.mark_nontrivial('{}|hist|{}'.format(tag, k))
    if os.path.exists(work):
        os.remove(work)


def table_signature(path):
    """{table: (row count, digest of the rows in key order)} -- a dump that stays cheap for
    records of hundreds of thousands of steps"""
    import hashlib

    connection = faults.plain_connect(path)
    try:
        out = {}
        for (table,) in connection.execute("SELECT name FROM sqlite_master WHERE type='table' ORDER BY 1").fetchall():
            h = hashlib.md5()
            n = 0
            for row in connection.execute('SELECT * FROM {} ORDER BY 1, 2'.format(table) if table not in ('thresholds', 'zeta_grid', 'curvature', 'time_grid')
                                          else 'SELECT * FROM {}'.format(table)):
                h.update(repr(row).encode())
                n += 1
            out[table] = (n, h.hexdigest())
        return out
    finally:
        connection.close()


def long_record_kills(ctx, sizes):
    """A record long enough for SQLite to write pages of the unfinished transaction into the
    dataset file before the commit (its page cache holds about 2 MB of changed pages; the flags
    of some 170 000 time steps fill it): classify is killed late in the step, at statement
    boundaries and at arbitrary instants.  Only the on-disk rollback journal can then restore
    the previous content"""
    import time

    rec = ctx.rec
    rng = core.make_rng(ctx.seed, 'long-record')
    n = sizes['long_steps']
    step = 600
    rain = [0.0] * n
    z = [0.0] * n
    level = -100.0
    i = 0
    while i < n:
        if rng.random() < 0.004:
            k = rng.randint(1, 4)
            for j in range(i, min(n, i + k)):
                rain[j] = rng.choice([12.0, 30.0, 6.5])
                level += rain[j] * step / 3600.0 / 0.3
                z[j] = level
            i += k
            continue
        level -= rng.choice([0.01, 0.02, 0.005])
        z[i] = level
        i += 1
    t0 = data.parse_t0('2001-01-01 00:00:00')
    paths = []
    for name, header, values in (('p', 'Datetime,precipitation_mm_h', rain), ('e', 'Datetime,evapotranspiration_mm_h', None), ('z', 'Datetime,water_level_mm', z)):
        path = os.path.join(ctx.workdir, 'long_{}.txt'.format(name))
        with open(path, 'w') as f:
            f.write(header + '\n')
            for k in range(n + (1 if values is None else 0)):
                f.write('{},{!r}\n'.format(data.ts(t0, k * step), 0.1 if values is None else values[k]))
        paths.append(path)
    base = os.path.join(ctx.workdir, 'long_base.sqlite3')
    work = os.path.join(ctx.workdir, 'long_work.sqlite3')
    status, exc = data.cli(['load', base, '-p', paths[0], '-e', paths[1], '-z', paths[2], '--timezone', 'UTC'])
    if exc is not None or status != 0:
        rec.inconclusive_because('long record could not be loaded: {}'.format(core.describe_exception(exc) if exc else status))
        return
    argv = ['classify', 'X', '-s', '4.0', '-j', '5.0']
    clean = os.path.join(ctx.workdir, 'long_clean.sqlite3')
    fresh_copy(base, clean)
    t_start = time.time()
    status, exc, N, log, rows, _ = run_step(argv, clean)
    t_clean = time.time() - t_start
    if exc is not None or status != 0:
        rec.inconclusive_because('long record could not be classified: {}'.format(exc.desc if exc else status))
        return
    pre, post = table_signature(base), table_signature(clean)
    rec.hit('long-record:steps', n)
    rec.hit('long-record:statements-of-classify', N)
    scase = {'long_record_steps': n, 'seed': ctx.seed}

    def verdict(label, w):
        got = table_signature(work)
        if got != pre and got != post:
            rec.violation('mixed-state-after-kill-on-a-long-record:classify',
                          dict(w, tables_changed=[t for t in got if got[t] != pre.get(t)], tables_incomplete=[t for t in got if got[t] != post.get(t)],
                               rows={t: got[t][0] for t in got if got[t] != pre.get(t)}), scase, 'long')
            return
        rec.hit('long-record:state-after-kill:' + ('pre' if got == pre else 'post'))
        status2, exc2, *_ = run_step(argv, work)
        if table_signature(work) != post:
            rec.violation('rerun-after-kill-on-a-long-record-does-not-reach-the-clean-result:classify',
                          dict(w, rerun_exception=exc2.desc if exc2 else None), scase, 'long')
            return
        rec.hit('long-record:reruns-after-kill-checked')
        rec.mark_nontrivial('long|{}|{}'.format(label, sorted(w.items())))

    for at in sorted({N, N - 1, max(1, int(0.6 * N)), max(1, int(0.85 * N))}):
        rec.case()
        fresh_copy(base, work)
        st = run_step_killed(argv, work, at, 'kill-before')
        if not (os.WIFSIGNALED(st) and os.WTERMSIG(st) == signal.SIGKILL):
            rec.inconclusive_because('child classifying the long record was not killed at statement {} (status {})'.format(at, st))
            continue
        rec.hit('long-record:kills-at-statement-boundaries')
        verdict('statement', {'statement_index': at, 'of': N, 'statement': log[at - 1][1] if at - 1 < len(log) else None})
    for _ in range(sizes['long_timed_kills']):
        rec.case()
        fresh_copy(base, work)
        delay = rng.uniform(0.55, 1.02) * t_clean
        killed = run_step_killed_after(argv, work, delay)
        rec.hit('long-record:timed-kills-while-running' if killed else 'long-record:timed-kills-after-completion')
        verdict('timed', {'killed_after_s': round(delay, 2), 'clean_run_s': round(t_clean, 2)})
    for f in (base, work, clean) + tuple(paths):
        if os.path.exists(f):
            os.remove(f)


def run(ctx):
    s = SIZES[ctx.tier]
    faults.install()
    try:
        rng = ctx.rng('atomicity')
        # work units: (dataset, step) pairs and (dataset, histories), dealt to shards
        units = [(d, u) for d in range(s['datasets']) for u in list(range(len(STEPS))) + ['hist']]
        mine = [u for i, u in enumerate(units) if i % ctx.nshards == ctx.shard]
        for d in sorted({d for d, _ in mine}):
            drng = core.make_rng(ctx.seed, 'c20-dataset', d)
            case, base = make_dataset(ctx, drng, d)
            if base is None:
                ctx.rec.inconclusive_because('dataset {} could not be loaded'.format(d))
                continue
            tag = 'd{}'.format(d)
            # clean chain of databases: base -> classify -> grid -> curvature -> rise -> recession
            chain = [base]
            for name, mk in STEPS:
                nxt = os.path.join(ctx.workdir, '{}_chain_{}.sqlite3'.format(tag, name))
                fresh_copy(chain[-1], nxt)
                status, exc, *_ = run_step(mk(case), nxt)
                if exc is not None or status != 0:
                    ctx.rec.inconclusive_because('clean chain failed at {}: {}'.format(name, exc.desc if exc else status))
                    chain = None
                    break
                chain.append(nxt)
            if chain is None:
                continue
            for dd, u in mine:
                if dd != d:
                    continue
                if u == 'hist':
                    run_histories(ctx, rng, case, base, tag, s['histories'])
                else:
                    name, mk = STEPS[u]
                    enumerate_step_faults(ctx, case, name, mk(case), chain[u], tag, s)
        if ctx.shard == ctx.nshards - 1 and s.get('long_steps'):
            long_record_kills(ctx, s)
    finally:
        faults.uninstall()
        faults.disable()


def replay(ctx, case, module=None):
    faults.install()
    try:
        ds = case['dataset']
        paths = data.write_case_files(ds, ctx.workdir, 'rp')
        base = os.path.join(ctx.workdir, 'rp_base.sqlite3')
        status, exc = data.cli(['load', base, '-p', paths[0], '-e', paths[1], '-z', paths[2], '--timezone', 'UTC'])
        if module == 'history':
            run_histories(ctx, core.make_rng('replay'), ds, base, 'rp', 12)
            return
        cur = base
        for name, mk in STEPS:
            if name == case['step']:
                break
            nxt = os.path.join(ctx.workdir, 'rp_{}.sqlite3'.format(name))
            fresh_copy(cur, nxt)
            run_step(mk(ds), nxt)
            cur = nxt
        enumerate_step_faults(ctx, ds, case['step'], case['argv'], cur, 'rp', SIZES['quick'])
    finally:
        faults.uninstall()
        faults.disable()
