"""Runner: tiers, shards (one subprocess per shard, never a Pool), watchdog,
verdict, evidence, replay.

    python -m spowtd_verif.runner <Cnn> <quick|thorough> [--seed N]
    python -m spowtd_verif.runner <Cnn> --replay FILE
    python -m spowtd_verif.runner --selftest

Exit status: 0 held on everything explored, 1 violation (one line
"VIOLATION property=<id> replay=<path>" per distinct mechanism), 2 inconclusive.
"""

import argparse
import importlib
import json
import os
import shutil
import subprocess
import sys
import time
import traceback

from . import core

WATCHDOG_S = {'quick': 1800, 'thorough': 7200}


class Context:
    def __init__(self, prop, tier, seed, shard, nshards, workdir, replay_dir):
        self.prop = prop
        self.tier = tier
        self.seed = seed
        self.shard = shard
        self.nshards = nshards
        self.workdir = workdir
        self.rec = core.Recorder(prop, tier, seed, shard, nshards, replay_dir)

    def rng(self, *name):
        return core.make_rng(self.seed, self.shard, self.nshards, *name)

    def share(self, total):
        """Number of cases of `total` that fall to this shard"""
        base, extra = divmod(total, self.nshards)
        return base + (1 if self.shard < extra else 0)


def load_module(prop):
    return importlib.import_module('spowtd_verif.props.' + prop.lower())


SHARD_TIME_ZONES = ['UTC', 'America/New_York', 'Asia/Kolkata', 'Australia/Lord_Howe']


def run_shard(args):
    # the machine's own time zone is part of the environment, not of the input: each shard runs
    # under another one (none of the properties may depend on it)
    zone = SHARD_TIME_ZONES[args.shard % len(SHARD_TIME_ZONES)]
    os.environ['TZ'] = zone
    time.tzset()
    core.install_repo_import_hook()
    mod = load_module(args.prop)
    workdir = os.path.join(
        core.WORK_ROOT, '{}-{}-{}'.format(args.prop, os.getpid(), args.shard)
    )
    if args.shard % 4 == 2 or os.environ.get('SPOWTD_VERIF_ODD_PATHS') == '1':
        # a data directory whose name has characters that mean something in URIs, shells and
        # format strings: every dataset, input and output file of this shard lives under it
        workdir = os.path.join(workdir, 'site #2 (50%41 wet) & co?=x {0}')
    os.makedirs(workdir, exist_ok=True)
    ctx = Context(
        args.prop,
        args.tier,
        args.seed,
        args.shard,
        args.nshards,
        workdir,
        os.path.join(core.HOME, 'replays'),
    )
    ctx.rec.hit('shards-run-with-the-machine-time-zone-set-to:' + zone)
    if '#' in workdir:
        ctx.rec.hit('shards-whose-data-directory-name-has-special-characters')
    if os.environ.get('SPOWTD_VERIF_OPTIMIZE') == '1':
        ctx.rec.hit('shards-run-with-assert-statements-of-spowtd-compiled-away')
    if os.environ.get('SPOWTD_VERIF_PRINTOPTIONS') == 'legacy':
        import numpy
        numpy.set_printoptions(legacy='1.13', precision=4)
        ctx.rec.hit('shards-run-with-numpy-print-options-changed-by-the-caller')
    if os.environ.get('SPOWTD_VERIF_WARNINGS') == 'error':
        # a caller who runs with warnings as errors (python -W error): RuntimeWarnings attributed to
        # spowtd's own modules are raised (the harness and the libraries keep the default)
        import warnings
        warnings.filterwarnings('error', category=RuntimeWarning, module=r'spowtd(\..*)?$')
        ctx.rec.hit('shards-run-with-runtime-warnings-from-spowtd-raised-as-errors')
    try:
        mod.run(ctx)
    except Exception:  # harness failure: inconclusive, never a violation
        ctx.rec.inconclusive_because(
            'harness exception in shard {}: {}'.format(
                args.shard, traceback.format_exc()[-3500:]
            )
        )
    finally:
        shutil.rmtree(os.path.join(core.WORK_ROOT, '{}-{}-{}'.format(args.prop, os.getpid(), args.shard)), ignore_errors=True)
    from . import data as data_mod
    if data_mod.RELATIVE_CALLS[0]:
        ctx.rec.hit('commands-typed-with-relative-file-names-from-the-data-directory', data_mod.RELATIVE_CALLS[0])
    with open(args.out, 'w') as f:
        json.dump(ctx.rec.to_dict(), f)
    return 0


def run_replay(args):
    core.install_repo_import_hook()
    mod = load_module(args.prop)
    with open(args.replay) as f:
        data = json.load(f)
    workdir = os.path.join(core.WORK_ROOT, '{}-replay-{}'.format(args.prop, os.getpid()))
    os.makedirs(workdir, exist_ok=True)
    ctx = Context(
        args.prop, data.get('tier', 'quick'), data.get('seed', 0), 0, 1, workdir,
        os.path.join(core.WORK_ROOT, 'replays-of-replays'),
    )
    try:
        mod.replay(ctx, data['case'], data.get('module'))
    finally:
        shutil.rmtree(workdir, ignore_errors=True)
        shutil.rmtree(os.path.join(core.WORK_ROOT, 'replays-of-replays'), ignore_errors=True)
    findings = core.load_known_findings()
    status = 0
    seen = set()
    for v in ctx.rec.violations:
        if v['key'] in seen:
            continue
        seen.add(v['key'])
        if (args.prop, v['key']) in findings:
            print('KNOWN-FINDING: property={} {}'.format(args.prop, findings[(args.prop, v['key'])]))
            continue
        print('VIOLATION property={} replay={}'.format(args.prop, args.replay))
        print('  key={} witness={}'.format(v['key'], json.dumps(v['witness'])[:1500]))
        status = 1
    if status == 0 and ctx.rec.inconclusive:
        print('INCONCLUSIVE property={} reason={}'.format(args.prop, ctx.rec.inconclusive[0]))
        return 2
    if status == 0:
        print('replay: property {} held on this case ({} evaluations)'.format(args.prop, ctx.rec.evaluations))
    return status


def run_tier(args):
    t0 = time.time()
    mod = load_module_light(args.prop)
    nshards = mod.SHARDS[args.tier]
    if os.environ.get('VERIF_SHARDS'):
        nshards = int(os.environ['VERIF_SHARDS'])
    run_dir = os.path.join(
        core.WORK_ROOT, 'run-{}-{}-{}'.format(args.prop, args.tier, os.getpid())
    )
    os.makedirs(run_dir, exist_ok=True)
    procs = []
    for i in range(nshards):
        out = os.path.join(run_dir, 'shard-{}.json'.format(i))
        log = open(os.path.join(run_dir, 'shard-{}.log'.format(i)), 'w')
        cmd = [
            sys.executable, '-X', 'faulthandler', '-W', 'ignore',
            '-m', 'spowtd_verif.runner', args.prop, args.tier,
            '--seed', str(args.seed), '--shard', str(i), '--nshards', str(nshards),
            '--out', out,
        ]
        # string hashing is part of the environment too: a fixed, different hash seed per shard
        # (reproducible, but set / dict-of-set orders of strings differ between shards)
        env = dict(os.environ, PYTHONHASHSEED=str(i))
        if nshards > 1 and i == nshards - 1:
            # the last shard runs spowtd compiled as `python -O` would (assert statements dropped)
            env['SPOWTD_VERIF_OPTIMIZE'] = '1'
        if nshards > 1 and i == 0:
            # the first shard runs like a session in which the caller changed numpy's print options
            env['SPOWTD_VERIF_PRINTOPTIONS'] = 'legacy'
        if nshards > 1 and i == 1:
            # the second shard runs like a caller with warnings as errors (see run_shard)
            env['SPOWTD_VERIF_WARNINGS'] = 'error'
        procs.append((i, out, log, subprocess.Popen(cmd, stdout=log, stderr=subprocess.STDOUT, env=env)))
    deadline = t0 + WATCHDOG_S[args.tier]
    dicts = []
    problems = []
    for i, out, log, proc in procs:
        try:
            rc = proc.wait(timeout=max(1.0, deadline - time.time()))
        except subprocess.TimeoutExpired:
            proc.kill()
            proc.wait()
            rc = None
        log.close()
        if rc is None:
            problems.append('shard {} stopped by the watchdog'.format(i))
        elif rc != 0 or not os.path.exists(out):
            with open(log.name) as f:
                tail = f.read()[-1500:]
            problems.append('shard {} exited with status {}: {}'.format(i, rc, tail))
        if os.path.exists(out):
            with open(out) as f:
                dicts.append(json.load(f))
    merged = core.merge_shards(dicts)
    merged['inconclusive'].extend(problems)
    shutil.rmtree(run_dir, ignore_errors=True)

    findings = core.load_known_findings()
    # group violations by mechanism key
    by_key = {}
    for v in merged['violations']:
        by_key.setdefault(v['key'], []).append(v)
    status = 0
    n_new = 0
    known_lines = []
    for key, vs in sorted(by_key.items()):
        if (args.prop, key) in findings:
            known_lines.append(
                'KNOWN-FINDING: property={} {} [key={} observed {} times]'.format(
                    args.prop, findings[(args.prop, key)], key,
                    merged['counters'].get('violation:' + key, len(vs)),
                )
            )
            continue
        n_new += merged['counters'].get('violation:' + key, len(vs))
        status = 1
    for line in known_lines:
        print(line)
    if status == 1:
        shown = 0
        for key, vs in sorted(by_key.items()):
            if (args.prop, key) in findings or shown >= 5:
                continue
            replay = next((v['replay'] for v in vs if v['replay']), None)
            print('VIOLATION property={} replay={}'.format(args.prop, replay))
            print('  key={} count={} witness={}'.format(
                key, merged['counters'].get('violation:' + key, len(vs)),
                json.dumps(vs[0]['witness'])[:1200]))
            shown += 1

    required = getattr(mod, 'REQUIRED', {}).get(args.tier, {})
    missing = [
        '{} (need {}, saw {})'.format(k, n, merged['counters'].get(k, 0))
        for k, n in required.items()
        if merged['counters'].get(k, 0) < n
    ]
    distinct = len(merged['nontrivial'])
    min_nt = getattr(mod, 'MIN_NONTRIVIAL', {}).get(args.tier, 2)
    if distinct < min_nt:
        missing.append('distinct non-trivial cases (need {}, saw {})'.format(min_nt, distinct))
    if missing:
        merged['inconclusive'].append('required monitors / input classes not reached: ' + '; '.join(missing))
    if status == 0 and merged['inconclusive']:
        status = 2

    wall = time.time() - t0
    evidence = {
        'property_id': args.prop,
        'tier': args.tier,
        'seed': args.seed,
        'level': mod.LEVEL,
        'coverage': {
            'evaluations': merged['evaluations'],
            'distinct_nontrivial': distinct,
            'rule': mod.RULE,
            'samples': merged['samples'],
            'observed': dict(sorted(merged['counters'].items())),
            'maxima': dict(sorted(merged['maxima'].items())),
            'shards': nshards,
            'verdict': {0: 'held', 1: 'violated', 2: 'inconclusive'}[status],
            'known_findings_observed': known_lines,
            'inconclusive_reasons': merged['inconclusive'][:10],
        },
        'assumptions': list(getattr(mod, 'ASSUMPTIONS', [])),
        'wall_s': round(wall, 2),
        'violations': n_new,
    }
    if getattr(mod, 'EXHAUSTIVE', None) is not None:
        ex = mod.EXHAUSTIVE
        evidence['coverage']['exhaustive'] = bool(ex.get(args.tier) if isinstance(ex, dict) else ex) and status == 0
    os.makedirs(os.path.join(core.HOME, 'evidence'), exist_ok=True)
    with open(os.path.join(core.HOME, 'evidence', args.prop + '.json'), 'w') as f:
        json.dump(evidence, f, indent=1, sort_keys=False)
        f.write('\n')
    # a copy per tier, so that the deepest run of each tier stays on record
    # next to the file the manifest names (which the latest run overwrites)
    os.makedirs(os.path.join(core.HOME, 'evidence', 'by-tier'), exist_ok=True)
    shutil.copy(os.path.join(core.HOME, 'evidence', args.prop + '.json'),
                os.path.join(core.HOME, 'evidence', 'by-tier', '{}-{}.json'.format(args.prop, args.tier)))

    if status == 2:
        print('INCONCLUSIVE property={} reason={}'.format(args.prop, ' | '.join(merged['inconclusive'])[:3000]))
    print(
        '{} {} seed={} verdict={} evaluations={} distinct_nontrivial={} violations={} wall={:.1f}s'.format(
            args.prop, args.tier, args.seed,
            {0: 'held', 1: 'VIOLATED', 2: 'INCONCLUSIVE'}[status],
            merged['evaluations'], distinct, n_new, wall,
        )
    )
    return status


def load_module_light(prop):
    """Import the property module in the parent without importing spowtd
    (modules import spowtd lazily inside run())."""
    return load_module(prop)


def selftest():
    core.install_repo_import_hook()
    import numpy  # noqa: F401
    import scipy  # noqa: F401
    import yaml  # noqa: F401
    import pytz  # noqa: F401
    import spowtd.user_interface as ui
    import spowtd.regrid
    assert os.path.realpath(spowtd.regrid.__file__).startswith(core.REPO), spowtd.regrid.__file__
    assert spowtd.regrid.__spec__.cached is None or True
    os.makedirs(core.WORK_ROOT, exist_ok=True)
    probe = os.path.join(core.WORK_ROOT, 'probe')
    with open(probe, 'w') as f:
        f.write('ok')
    os.remove(probe)
    for i in range(1, 21):
        load_module('C{:02d}'.format(i))
    print('selftest ok: python', sys.version.split()[0], 'spowtd from', os.path.dirname(ui.__file__))
    return 0


def main(argv=None):
    parser = argparse.ArgumentParser(prog='check')
    parser.add_argument('prop', nargs='?')
    parser.add_argument('tier', nargs='?', choices=['quick', 'thorough'])
    parser.add_argument('--seed', type=int, default=None)
    parser.add_argument('--replay')
    parser.add_argument('--selftest', action='store_true')
    parser.add_argument('--shard', type=int)
    parser.add_argument('--nshards', type=int)
    parser.add_argument('--out')
    args = parser.parse_args(argv)
    if args.selftest:
        return selftest()
    if not args.prop:
        parser.error('property id required')
    args.prop = args.prop.upper()
    if args.seed is None:
        args.seed = int(os.environ.get('VERIF_SEED', '0') or 0)
    if args.replay:
        return run_replay(args)
    if args.tier is None:
        args.tier = os.environ.get('VERIF_TIER') or 'quick'
        if args.tier not in ('quick', 'thorough'):
            args.tier = 'quick'
    if args.shard is not None:
        return run_shard(args)
    return run_tier(args)


if __name__ == '__main__':
    sys.exit(main())
