#!/usr/bin/env python3
"""Print the table of DESIGN.md section 13.7 from SIZES of the property modules and the
by-tier evidence files:  /venv/bin/python tools/budget_table.py"""
import importlib
import json
import os
import sys

HERE = os.path.dirname(os.path.dirname(os.path.abspath(__file__)))
sys.path.insert(0, HERE)


def fmt(sizes):
    return ', '.join('{}={}'.format(k, v) for k, v in sizes.items())


def main():
    print('| check | quick sizes | thorough sizes (16 shards) | quick evaluations | quick wall s | thorough evaluations | thorough wall s |')
    print('|---|---|---|---|---|---|---|')
    for i in range(1, 21):
        pid = 'C{:02d}'.format(i)
        mod = importlib.import_module('spowtd_verif.props.' + pid.lower())
        cells = []
        for tier in ('quick', 'thorough'):
            path = os.path.join(HERE, 'evidence', 'by-tier', '{}-{}.json'.format(pid, tier))
            if os.path.exists(path):
                e = json.load(open(path))
                cells += [str(e['coverage']['evaluations']), str(e.get('wall_s', ''))]
            else:
                cells += ['-', '-']
        print('| {} | {} | {} | {} | {} | {} | {} |'.format(pid, fmt(mod.SIZES['quick']), fmt(mod.SIZES['thorough']), *cells))


if __name__ == '__main__':
    main()
