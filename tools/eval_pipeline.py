#!/usr/bin/env python3
"""Confirm and detect both changes of one property of a round:
    ROUND=4 VERIF_PRE=/tmp/verif-pre6 tools/eval_pipeline.py C10 G H
confirm (scratch worktree of the agent), then detection in private worktrees of /repo
(DETECT_IN_WORKTREE=1) with the checks as they stood ($VERIF_PRE, a worktree of /verif at
the commit that existed when the change was written) and with the current checks.  The
property's own check runs first; the related ones only if it held."""
import json
import os
import subprocess
import sys

HERE = os.path.dirname(os.path.dirname(os.path.abspath(__file__)))
RELATED = {
    'C01': ['C02', 'C03'], 'C02': ['C01', 'C20'], 'C03': ['C04', 'C01'], 'C04': ['C03'], 'C05': ['C13', 'C08'],
    'C06': ['C13', 'C05'], 'C07': ['C11', 'C10'], 'C08': ['C05', 'C13'], 'C09': ['C13'], 'C10': ['C11', 'C07'],
    'C11': ['C10', 'C07'], 'C12': ['C13'], 'C13': ['C12', 'C05'], 'C14': ['C17'], 'C15': ['C18'], 'C16': ['C19'],
    'C17': ['C19', 'C14'], 'C18': ['C19', 'C15'], 'C19': ['C17', 'C18'], 'C20': ['C13'],
}


def run(args, env=None):
    e = dict(os.environ)
    e.update(env or {})
    return subprocess.run(['/venv/bin/python', os.path.join(HERE, 'tools', 'eval_seed.py')] + args, env=e, cwd=HERE,
                          capture_output=True, text=True)


def result(key):
    return json.load(open('/root/seed-results/{}.json'.format(key)))


def main():
    prop = sys.argv[1]
    for which in sys.argv[2:]:
        key = '{}-{}'.format(prop, which)
        r = run(['confirm', prop, which])
        if not result(key).get('confirm', {}).get('confirmed'):
            print(key, 'NOT CONFIRMED', r.stdout[-800:], r.stderr[-300:], flush=True)
            continue
        for pre in (True, False):
            env = {'DETECT_IN_WORKTREE': '1'}
            if pre:
                if not os.environ.get('VERIF_PRE'):
                    continue
                env['VERIF_DIR'] = os.environ['VERIF_PRE']
            field = 'detect_pre' if pre else 'detect'
            run(['detect', prop, which, prop], env)
            if result(key).get(field, {}).get(prop, {}).get('verdict') != 'VIOLATION':
                for other in RELATED.get(prop, []):
                    run(['detect', prop, which, other], env)
                    if result(key).get(field, {}).get(other, {}).get('verdict') == 'VIOLATION':
                        break
        e = result(key)
        print(key, 'as stood:', {c: v['verdict'] for c, v in e.get('detect_pre', {}).items()},
              'now:', {c: (v['verdict'], v['keys'][:2]) for c, v in e.get('detect', {}).items()}, flush=True)


if __name__ == '__main__':
    main()
