#!/usr/bin/env python3
"""Evaluate a change written by an independent sub-agent.

phase 1 (confirm):  tools/eval_seed.py confirm <Cxx> <A|B>
    in the agent's scratch worktree /tmp/wt-<Cxx>: apply the patch, run the
    demonstration (must exit 1), run the repository's test suite (the 33
    baseline tests must pass), revert, run the demonstration (must exit 0).
phase 2 (detect):   tools/eval_seed.py detect <Cxx> <A|B> [check ids ...]
    apply the patch to /repo, run the quick (or $TIER) checks, undo it.
phase 3 (keep):     tools/eval_seed.py keep <Cxx> <A|B>
    copy patch, demonstration and meta.json to /verif/seeded/<Cxx>-<A|B>/.
Results accumulate in /root/seed-results/<id>.json.
"""

import json
import os
import re
import shutil
import subprocess
import sys
import xml.etree.ElementTree as ET

HERE = os.path.dirname(os.path.dirname(os.path.abspath(__file__)))
RESULTS = '/root/seed-results'
ROUND = os.environ.get('ROUND', '')  # '' for the first round (wt-/seed-), '2' for the second (wt2-/seed2-)
BASELINE = json.load(open('/root/.vp/BASELINE.json'))['stable_pass']


def sh(cmd, timeout=None, cwd=None):
    return subprocess.run(cmd, shell=True, capture_output=True, text=True, timeout=timeout, cwd=cwd)


def load(key):
    path = os.path.join(RESULTS, key + '.json')
    return json.load(open(path)) if os.path.exists(path) else {}


def save(key, entry):
    os.makedirs(RESULTS, exist_ok=True)
    json.dump(entry, open(os.path.join(RESULTS, key + '.json'), 'w'), indent=1)


def confirm(prop, which):
    wt = '/tmp/wt{}-'.format(ROUND) + prop
    out = '/tmp/seed{}-'.format(ROUND) + prop
    patch = '{}/patch_{}.diff'.format(out, which)
    demo = '{}/demo_{}.py'.format(out, which)
    res = {'patch': patch}
    assert sh('git -C {} diff --quiet'.format(wt)).returncode == 0, 'worktree not clean'
    p = sh('cd {} && /venv/bin/python {}'.format(wt, demo), timeout=1200)
    res['demo_without_patch'] = p.returncode
    a = sh('git -C {} apply {}'.format(wt, patch))
    if a.returncode != 0:
        res['error'] = 'patch does not apply: ' + a.stderr[-300:]
        return res
    try:
        p = sh('cd {} && /venv/bin/python {}'.format(wt, demo), timeout=1200)
        res['demo_with_patch'] = p.returncode
        res['demo_output_with_patch'] = (p.stdout + p.stderr)[-600:]
        junit = '/tmp/junit-{}-{}.xml'.format(prop, which)
        t = sh('cd {} && /venv/bin/python -m pytest -q -p no:cacheprovider --timeout=900 --continue-on-collection-errors --junitxml={} spowtd/test'.format(wt, junit), timeout=3600)
        res['pytest_tail'] = t.stdout.strip().splitlines()[-1] if t.stdout.strip() else t.stderr[-200:]
        passed = set()
        for tc in ET.parse(junit).getroot().iter('testcase'):
            if not any(ch.tag in ('failure', 'error', 'skipped') for ch in tc):
                passed.add('{}::{}'.format(tc.get('classname'), tc.get('name')))
        missing = [b for b in BASELINE if b not in passed]
        res['baseline_tests_failing'] = missing[:5]
        res['n_passed'] = len(passed)
    finally:
        sh('git -C {} checkout -- .'.format(wt))
    res['confirmed'] = (res.get('demo_without_patch') == 0 and res.get('demo_with_patch') == 1
                        and not res.get('baseline_tests_failing') and res.get('n_passed', 0) >= 33)
    return res


def detect(prop, which, checks):
    """By default the patch is applied to /repo itself and undone straight
    afterwards; with DETECT_IN_WORKTREE=1 a private detached worktree of /repo's HEAD is
    used instead (SPOWTD_REPO points the checks at it), so that several detections can
    run side by side and /repo is never touched."""
    patch = '/tmp/seed{}-{}/patch_{}.diff'.format(ROUND, prop, which)
    private = os.environ.get('DETECT_IN_WORKTREE') == '1'
    if private:
        repo = '/tmp/dwt-{}-{}-{}'.format(prop, which, os.getpid())
        a = sh('git -C /repo worktree add --detach {} HEAD'.format(repo))
        assert a.returncode == 0, a.stderr
    else:
        repo = '/repo'
        assert sh('git -C /repo diff --quiet').returncode == 0, '/repo has local changes'
    out = {}
    tier = os.environ.get('TIER', 'quick')
    try:
        a = sh('git -C {} apply {}'.format(repo, patch))
        if a.returncode != 0:
            return {'error': 'patch does not apply: ' + a.stderr[-300:]}
        for cid in checks:
            vdir = os.environ.get('VERIF_DIR', HERE)
            p = sh('cd {0} && SPOWTD_REPO={3} SPOWTD_VERIF_HOME={0} ./check {1} {2}'.format(vdir, cid, tier, repo), timeout=7200)
            keys = [ln.split('key=')[1].split(' ')[0] for ln in p.stdout.splitlines() if ln.strip().startswith('key=')]
            out[cid] = {'verdict': {0: 'held', 1: 'VIOLATION', 2: 'inconclusive'}.get(p.returncode, str(p.returncode)),
                        'keys': keys[:5], 'tier': tier}
    finally:
        if private:
            sh('git -C /repo worktree remove --force {}'.format(repo))
        else:
            sh('git -C /repo checkout -- .')
    return out


def keep(prop, which, entry):
    sid = '{}-{}'.format(prop, which)
    dst = os.path.join(HERE, 'seeded', sid)
    os.makedirs(dst, exist_ok=True)
    src = '/tmp/seed{}-'.format(ROUND) + prop
    shutil.copy('{}/patch_{}.diff'.format(src, which), dst + '/patch.diff')
    demo = open('{}/demo_{}.py'.format(src, which)).read()
    wtname = '/tmp/wt{}-{}'.format(ROUND, prop)
    demo = demo.replace("'{}'".format(wtname), "os.environ.get('SPOWTD_REPO', '/repo')").replace('"{}"'.format(wtname), "os.environ.get('SPOWTD_REPO', '/repo')")
    if 'import os' not in demo:
        demo = 'import os\n' + demo
    open(dst + '/demo.py', 'w').write(demo)
    notes = open(src + '/notes.md').read() if os.path.exists(src + '/notes.md') else ''
    open(dst + '/notes.md', 'w').write(notes)
    meta = {
        'id': sid,
        'property': prop,
        'written_by': 'independent sub-agent given only the property text and a scratch worktree',
        'needs_to_manifest': entry.get('needs', ''),
        'what': entry.get('what', ''),
        'confirmed_by_me': {
            'where': 'scratch worktree /tmp/wt{}-{} (removed afterwards)'.format(ROUND, prop),
            'demo_without_patch_exit': entry['confirm'].get('demo_without_patch'),
            'demo_with_patch_exit': entry['confirm'].get('demo_with_patch'),
            'repository_test_suite_with_patch': entry['confirm'].get('pytest_tail'),
            'baseline_tests_failing': entry['confirm'].get('baseline_tests_failing'),
        },
        'checks_run_against_it': entry.get('detect', {}),
        'caught_by': sorted(c for c, r in entry.get('detect', {}).items() if r.get('verdict') == 'VIOLATION'),
        'how_to_rerun': 'git -C /repo apply /verif/seeded/{0}/patch.diff; (cd /verif && ./check <id> quick); git -C /repo checkout -- .   (demo: SPOWTD_REPO=/repo /venv/bin/python /verif/seeded/{0}/demo.py)'.format(sid),
    }
    json.dump(meta, open(dst + '/meta.json', 'w'), indent=1)
    return dst


def main():
    cmd, prop, which = sys.argv[1:4]
    key = '{}-{}'.format(prop, which)
    entry = load(key)
    if cmd == 'confirm':
        entry['confirm'] = confirm(prop, which)
        print(key, json.dumps(entry['confirm'], indent=1)[:1500])
    elif cmd == 'detect':
        checks = sys.argv[4:] or [prop]
        r = detect(prop, which, checks)
        entry.setdefault('detect_pre' if os.environ.get('VERIF_DIR') else 'detect', {}).update(r)
        print(key, json.dumps(r))
    elif cmd == 'keep':
        print(keep(prop, which, entry))
    save(key, entry)


if __name__ == '__main__':
    main()
