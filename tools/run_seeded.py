#!/usr/bin/env python3
"""Regression of the framework against the kept seeded changes.

    /venv/bin/python tools/run_seeded.py [id-substring ...]

For every /verif/seeded/<id>/: apply patch.diff to the repository named by
$SPOWTD_REPO (default /repo), run the quick tier of the property's own check
and of the checks recorded as catching it, undo the patch.  Prints one line
per change; exit status 1 if a change that used to be caught is missed.
"""

import glob
import json
import os
import subprocess
import sys

HERE = os.path.dirname(os.path.dirname(os.path.abspath(__file__)))
REPO = os.environ.get('SPOWTD_REPO', '/repo')


def sh(cmd):
    return subprocess.run(cmd, shell=True, capture_output=True, text=True)


def main():
    select = sys.argv[1:]
    assert sh('git -C {} diff --quiet'.format(REPO)).returncode == 0, REPO + ' has local changes'
    missed = []
    for meta_path in sorted(glob.glob(os.path.join(HERE, 'seeded', '*', 'meta.json'))):
        meta = json.load(open(meta_path))
        sid = meta['id']
        if select and not any(s in sid for s in select):
            continue
        patch = os.path.join(os.path.dirname(meta_path), 'patch.diff')
        checks = sorted(set([meta['property']] + meta.get('caught_by', [])))
        if sh('git -C {} apply {}'.format(REPO, patch)).returncode != 0:
            print('{:8s} PATCH DOES NOT APPLY'.format(sid))
            missed.append(sid)
            continue
        try:
            verdicts = {}
            for cid in checks:
                p = sh('cd {} && ./check {} {}'.format(HERE, cid, os.environ.get('TIER', 'quick')))
                verdicts[cid] = {0: 'held', 1: 'VIOLATION', 2: 'inconclusive'}.get(p.returncode, str(p.returncode))
        finally:
            sh('git -C {} checkout -- .'.format(REPO))
        caught = [c for c, v in verdicts.items() if v == 'VIOLATION']
        print('{:8s} {}'.format(sid, ' '.join('{}={}'.format(c, v) for c, v in verdicts.items())), flush=True)
        if not caught:
            missed.append(sid)
    print('missed:', missed)
    return 1 if missed else 0


if __name__ == '__main__':
    sys.exit(main())
