#!/usr/bin/env python3
"""Regression of the framework against the kept seeded changes.

    /venv/bin/python tools/run_seeded.py [id-substring ...]

For every /verif/seeded/<id>/: apply patch.diff to the repository named by
$SPOWTD_REPO (default /repo), run the quick tier of the property's own check
and of the checks recorded as catching it, undo the patch.  Prints one line
per change; exit status 1 if a change that used to be caught is missed.
"""

import glob
import json
import os
import subprocess
import sys

HERE = os.path.dirname(os.path.dirname(os.path.abspath(__file__)))
REPO = os.environ.get('SPOWTD_REPO', '/repo')


def sh(cmd):
    return subprocess.run(cmd, shell=True, capture_output=True, text=True)


def run_one(meta_path, base_repo, private):
    meta = json.load(open(meta_path))
    sid = meta['id']
    if meta.get('not_caught'):
        return sid, {'(kept although not caught, see its meta.json)': 'VIOLATION-not-expected'}, None
    patch = os.path.join(os.path.dirname(meta_path), 'patch.diff')
    checks = sorted(set([meta['property']] + meta.get('caught_by', [])))
    repo = base_repo
    if private:
        repo = '/tmp/rs-{}-{}'.format(sid, os.getpid())
        a = sh('git -C {} worktree add --detach {} HEAD'.format(base_repo, repo))
        if a.returncode != 0:
            return sid, None, 'worktree: ' + a.stderr[-200:]
    try:
        if sh('git -C {} apply {}'.format(repo, patch)).returncode != 0:
            return sid, None, 'PATCH DOES NOT APPLY'
        verdicts = {}
        for cid in checks:
            p = sh('cd {} && SPOWTD_REPO={} ./check {} {} --seed {}'.format(HERE, repo, cid, os.environ.get('TIER', 'quick'), os.environ.get('VERIF_SEED', '0')))
            verdicts[cid] = {0: 'held', 1: 'VIOLATION', 2: 'inconclusive'}.get(p.returncode, str(p.returncode))
            if verdicts[cid] == 'VIOLATION' and os.environ.get('STOP_AT_FIRST', '1') == '1':
                break
        return sid, verdicts, None
    finally:
        if private:
            sh('git -C {} worktree remove --force {}'.format(base_repo, repo))
        else:
            sh('git -C {} checkout -- .'.format(repo))


def main():
    """usage: run_seeded.py [--jobs N] [id-substring ...]; with --jobs > 1 every change is applied in a
    private detached worktree of $SPOWTD_REPO (default /repo), which itself is never touched"""
    args = sys.argv[1:]
    jobs = 1
    if '--jobs' in args:
        i = args.index('--jobs')
        jobs = int(args[i + 1])
        del args[i:i + 2]
    select = args
    assert sh('git -C {} diff --quiet'.format(REPO)).returncode == 0, REPO + ' has local changes'
    metas = []
    for meta_path in sorted(glob.glob(os.path.join(HERE, 'seeded', '*', 'meta.json'))):
        sid = json.load(open(meta_path))['id']
        if select and not any(s in sid for s in select):
            continue
        metas.append(meta_path)
    missed = []
    import concurrent.futures
    with concurrent.futures.ThreadPoolExecutor(max_workers=jobs) as pool:
        for sid, verdicts, error in pool.map(lambda m: run_one(m, REPO, jobs > 1), metas):
            if error:
                print('{:8s} {}'.format(sid, error), flush=True)
                missed.append(sid)
                continue
            print('{:8s} {}'.format(sid, ' '.join('{}={}'.format(c, v) for c, v in verdicts.items())), flush=True)
            if not any(v.startswith('VIOLATION') for v in verdicts.values()):
                missed.append(sid)
    print('missed:', missed)
    return 1 if missed else 0


if __name__ == '__main__':
    sys.exit(main())
