#!/usr/bin/env python3
"""Deliberate breaks of spowtd (DESIGN.md section 9): each is a small source
edit that still imports; the listed checks must catch it.

    /venv/bin/python tools/selfbreaks.py [name-substring ...]   (from /verif)

Applies each edit to /repo's working tree, runs the quick tier of the listed
checks, and restores the tree with `git checkout -- .` straight afterwards.
Results are appended to selfbreaks.log (not evidence; a development aid).
"""

import json
import os
import subprocess
import sys
import time

REPO = os.environ.get('SPOWTD_REPO', '/repo')
HERE = os.path.dirname(os.path.dirname(os.path.abspath(__file__)))

# (name, file, old, new, checks expected to catch)
BREAKS = [
    # ---- classify
    ('cls-storm-threshold-ge', 'spowtd/classify.py', 'is_raining = rain > rain_threshold', 'is_raining = rain >= rain_threshold', ['C01', 'C03']),
    ('cls-jump-threshold-ge', 'spowtd/classify.py', 'is_jump = head_increments > jump_threshold', 'is_jump = head_increments >= jump_threshold', ['C01', 'C03']),
    ('cls-interstorm-jump-ge', 'spowtd/classify.py', '([False], np.diff(zeta_mm) > rising_jump_threshold_mm_h * time_step_h)', '([False], np.diff(zeta_mm) >= rising_jump_threshold_mm_h * time_step_h)', ['C04']),
    ('cls-mystery-initial-false', 'spowtd/classify.py', '    in_mystery = True\n    # pylint', '    in_mystery = False\n    # pylint', ['C04']),
    ('cls-interstorm-len-gt0', 'spowtd/classify.py', 'if len(indices) > 1]', 'if len(indices) > 0]', ['C01', 'C04']),
    ('cls-interstorm-len-gt2', 'spowtd/classify.py', 'if len(indices) > 1]', 'if len(indices) > 2]', ['C04']),
    ('cls-interstorm-ignores-rain', 'spowtd/classify.py', 'is_interstorm = (~is_mystery_jump) & (~is_raining)', 'is_interstorm = (~is_mystery_jump)', ['C04']),
    ('cls-rise-thru-off-by-one', 'spowtd/classify.py', 'jump_thru_epoch = int(epoch[jump_stop - 1])', 'jump_thru_epoch = int(epoch[jump_stop - 2])', ['C03']),
    ('cls-storm-thru-off-by-one', 'spowtd/classify.py', 'storm_thru_epoch = int(epoch[rain_stop - 1]) + int(', 'storm_thru_epoch = int(epoch[rain_stop - 1]) + 0 * int(', ['C03']),
    ('cls-intersection-no-trim', 'spowtd/classify.py', 'intersection = is_raining[:-1] & jump_mask', 'intersection = is_raining[1:] & jump_mask', ['C01', 'C02']),
    ('cls-storm-pref-no-abs', 'spowtd/classify.py', 'return -abs(duration_differences[(rain_start, jump_start)])', 'return -(duration_differences[(rain_start, jump_start)])', ['C02']),
    ('cls-storm-pref-worst-first', 'spowtd/classify.py', 'return -abs(duration_differences[(rain_start, jump_start)])', 'return abs(duration_differences[(rain_start, jump_start)])', ['C02']),
    ('cls-rise-pref-reversed', 'spowtd/classify.py', 'if jump_preferences[jump][storm] > jump_preferences[jump][matches[jump]]:', 'if jump_preferences[jump][storm] < jump_preferences[jump][matches[jump]]:', ['C02']),
    ('cls-revert-D5', 'spowtd/classify.py', '(rain_stop - rain_start) - (jump_stop - jump_start - 1)', '(rain_stop - rain_start) - (jump_stop - jump_start)', ['C02']),
    ('cls-no-requeue-displaced', 'spowtd/classify.py', '                if storm_candidates[matches[jump]]:\n                    matchable_storms.add(matches[jump])\n', '', ['C02']),
    ('cls-revert-D2', 'spowtd/classify.py', 'np.concatenate((int_vector[:1], int_vector[1:] - int_vector[:-1])) > 0', 'np.concatenate(([0], int_vector[1:] - int_vector[:-1])) > 0', ['C01']),
    ('cls-revert-D6-guard', 'spowtd/classify.py', 'if len(delta_t) and delta_t.min() != delta_t.max():', 'if delta_t.min() != delta_t.max():', ['C01']),
    ('cls-commit-per-stretch', 'spowtd/classify.py', '            rising_jump_threshold_mm_h,\n        )\n    cursor.close()\n    connection.commit()', '            rising_jump_threshold_mm_h,\n        )\n        connection.commit()\n    cursor.close()\n    connection.commit()', ['C20']),
    ('schema-depth-view-lt', 'spowtd/schema.sql', 'AND ri.thru_epoch <= s.thru_epoch', 'AND ri.thru_epoch < s.thru_epoch', ['C03', 'C13']),
    ('schema-depth-view-from', 'spowtd/schema.sql', 'AND ri.thru_epoch <= s.thru_epoch', 'AND ri.from_epoch <= s.thru_epoch', ['C03', 'C13']),
    # ---- load
    ('load-span-lt', 'spowtd/load.py', 'AND ris.epoch <= max_t_zeta', 'AND ris.epoch < max_t_zeta', ['C10']),
    ('load-gap-median', 'spowtd/load.py', 'gap_i = np.nonzero(time_steps != time_steps.min())[0]', 'gap_i = np.nonzero(time_steps > np.median(time_steps))[0]', ['C10']),
    ('load-labels-constant', 'spowtd/load.py', '(valid_boundaries[i], valid_boundaries[i + 1], i // 2 + 1)', '(valid_boundaries[i], valid_boundaries[i + 1], 1)', ['C10']),
    ('load-interp-unsorted', 'spowtd/load.py', '    SELECT epoch, zeta_mm\n    FROM water_level_staging"""', '    SELECT epoch, zeta_mm\n    FROM water_level_staging ORDER BY zeta_mm"""', ['C10']),
    ('load-tz-replace', 'spowtd/load.py', 'local_datetime = tz.localize(\n            datetime_mod.datetime.strptime(row[0], ISO_8601_FORMAT)\n        )', 'local_datetime = datetime_mod.datetime.strptime(row[0], ISO_8601_FORMAT).replace(tzinfo=tz)', ['C11']),
    ('load-no-populated-guard', 'spowtd/load.py', "    if tables:\n        raise ValueError('Database already populated; remove before loading')", "    if tables and False:\n        raise ValueError('Database already populated; remove before loading')", []  # equivalent for C11: executescript then fails with 'table already exists', still refused, dataset unchanged
     ),
    ('load-no-uniform-check', 'spowtd/load.py', '    if len(delta_t) != 1:', '    if len(delta_t) < 1:', []  # equivalent for C11: the foreign keys enforced during load still refuse the malformed input (IntegrityError)
     ),
    ('load-no-et-check', 'spowtd/load.py', '    if missing_epochs:', '    if missing_epochs and False:', ['C11']),
    # ---- regrid / fit_offsets
    ('regrid-ceil-floor', 'spowtd/regrid.py', 'y_int = np.array(np.ceil(Y), dtype=np.int64)', 'y_int = np.array(np.floor(Y), dtype=np.int64)', ['C12']),
    ('regrid-range-plus-one', 'spowtd/regrid.py', 'targets = list(range(start, stop))', 'targets = list(range(start, stop + 1))', ['C12']),
    ('regrid-falling-not-reversed', 'spowtd/regrid.py', 'targets = reversed(list(range(stop, start)))', 'targets = list(range(stop, start))', ['C12']),
    ('regrid-bracket-left', 'spowtd/regrid.py', 'lambda x, y=y_target: spline(x) - y, x[i], x[i + 1]', 'lambda x, y=y_target: spline(x) - y, x[max(i - 1, 0)], x[i + 1]', ['C12']),
    ('fit-weight', 'spowtd/fit_offsets.py', 'row_template[indices] = 1.0 / number_of_series_at_head', 'row_template[indices] = 1.0 / (number_of_series_at_head + 1)', ['C05']),
    ('fit-b-sign', 'spowtd/fit_offsets.py', 'b[row_index] = t - mean_time', 'b[row_index] = mean_time - t', ['C05', 'C06']),
    ('fit-no-sort-mapping', 'spowtd/fit_offsets.py', 'original_indices = [index_mapping[series_id] for series_id in series_ids]', 'original_indices = list(series_ids)', ['C08', 'C06']),
    ('fit-keep-smallest-component', 'spowtd/fit_offsets.py', 'head_mapping, connected_components[:1]', 'head_mapping, connected_components[-1:]', ['C08']),
    ('fit-no-rebase', 'spowtd/fit_offsets.py', '((t - t.min(), H, index) for index, (t, H) in enumerate(series_list))', '((t, H, index) for index, (t, H) in enumerate(series_list))', ['C13', 'C07']),
    ('fit-head-mapping-median', 'spowtd/fit_offsets.py', 't_mean = np.mean(time)', 't_mean = np.max(time)', ['C12', 'C13']),
    # ---- rise / recession / grid
    ('rise-revert-D7-int', 'spowtd/rise.py', 'reference_index = int(round(reference_zeta_mm / delta_z_mm))', 'reference_index = int(reference_zeta_mm / delta_z_mm)', ['C09']),
    ('rec-default-origin-min', 'spowtd/recession.py', 'reference_index = max(head_mapping.keys())', 'reference_index = min(head_mapping.keys())', ['C09']),
    ('rise-offsets-not-recentred', 'spowtd/rise.py', "offsets[i] - mean_zero_crossing_depth_mm", "offsets[i]", ['C09']),
    ('rise-zeta-thru-short', 'spowtd/rise.py', 'zeta_seq = zeta_mm[zeta_start : zeta_thru + 1]', 'zeta_seq = zeta_mm[zeta_start : zeta_thru]', ['C13', 'C06']),
    ('rec-samples-shifted', 'spowtd/recession.py', 'series.append((epoch[indices], zeta_mm[indices]))', 'series.append((epoch[indices], zeta_mm[np.minimum(indices + 1, len(zeta_mm) - 1)]))', ['C13', 'C06']),
    ('grid-floor-ceil-swapped', 'spowtd/zeta_grid.py', 'int(math.floor(zeta_bounds[0] / grid_interval_mm)),\n                int(math.ceil(zeta_bounds[1] / grid_interval_mm)),', 'int(math.ceil(zeta_bounds[0] / grid_interval_mm)),\n                int(math.floor(zeta_bounds[1] / grid_interval_mm)),', ['C13']),
    ('grid-top-cell-dropped', 'spowtd/zeta_grid.py', 'int(math.ceil(zeta_bounds[1] / grid_interval_mm)),', 'int(math.ceil(zeta_bounds[1] / grid_interval_mm)) - 1,', ['C13']),
    ('rise-commit-between-loops', 'spowtd/rise.py', "        del interval\n\n    for discrete_zeta, crossings in zeta_mapping.items():", "        del interval\n    cursor.connection.commit()\n\n    for discrete_zeta, crossings in zeta_mapping.items():", ['C20']),
    ('grid-commit-after-insert', 'spowtd/zeta_grid.py', '        (grid_interval_mm,),\n    )\n', '        (grid_interval_mm,),\n    )\n    connection.commit()\n', ['C20']),
    # ---- hydraulic functions
    ('spline-no-clamp', 'spowtd/spline.py', 'return splev(x_clamped, self._tck, der=der)', 'return splev(x, self._tck, der=der)', ['C14']),
    ('spline-above-term', 'spowtd/spline.py', 'integral += self(max(a, xmax)) * (b - max(a, xmax))', 'integral += self(max(a, xmax)) * (b - xmax)', ['C14']),
    ('spline-below-term', 'spowtd/spline.py', 'integral += self(xmin) * (min(xmin, b) - a)', 'integral += self(xmin) * (b - a)', ['C14']),
    ('sy-order-1', 'spowtd/specific_yield.py', 'zip(zeta_knots_mm, sy_knots), order=3', 'zip(zeta_knots_mm, sy_knots), order=1', []),
    ('T-spline-of-K', 'spowtd/transmissivity.py', 'return np.exp(self._spline(water_level_mm))', 'return self._spline(water_level_mm) ** 2', ['C15']),
    ('T-min-twice', 'spowtd/transmissivity.py', '            self.minimum_transmissivity_m2_d\n            + integrate_mod.quad(', '            2 * self.minimum_transmissivity_m2_d\n            + integrate_mod.quad(', ['C15']),
    ('T-revert-D12', 'spowtd/transmissivity.py', 'points=interior_knots if len(interior_knots) else None,', 'points=None,', ['C15']),
    ('peat-psi-units', 'spowtd/specific_yield.py', 'theta = theta_s * (((zlu - z_) * 100) / (psi_s * 100)) ** (-1 / b)', 'theta = theta_s * (((zlu - z_) * 100) / (psi_s)) ** (-1 / b)', ['C16']),
    ('peat-exponent-sign', 'spowtd/specific_yield.py', '** (-1 / b)', '** (1 / b)', ['C16']),
    ('peat-Fs', 'spowtd/specific_yield.py', 'theta_Fs = (1 - Fs) * theta', 'theta_Fs = Fs * theta', ['C16']),
    ('peat-no-surface', 'spowtd/specific_yield.py', 'self.sy_knots = Sy1_soil + Sy1_surface', 'self.sy_knots = Sy1_soil', ['C16']),
    ('peat-T-exponent', 'spowtd/transmissivity.py', '** (1 - alpha)\n        ) / (100 * (alpha - 1))', '** (alpha - 1)\n        ) / (100 * (alpha - 1))', ['C16']),
    ('peat-T-refusal-ge', 'spowtd/transmissivity.py', 'if (water_level_mm / 10 > zeta_max_cm).any():', 'if (water_level_mm / 10 > zeta_max_cm + 1).any():', ['C16']),
    # ---- simulate
    ('simrise-cell-shift', 'spowtd/simulate_rise.py', 'zeta_grid_mm[i - 1], zeta_grid_mm[i]\n        )', 'zeta_grid_mm[i], zeta_grid_mm[min(i + 1, len(zeta_grid_mm) - 1)]\n        )', ['C17']),
    ('simrise-no-cumsum', 'spowtd/simulate_rise.py', 'W_mm = np.cumsum(dW_mm)', 'W_mm = dW_mm.copy()', ['C17']),
    ('simrise-mean-sign', 'spowtd/simulate_rise.py', 'W_mm += mean_storage_mm - W_mm.mean()', 'W_mm += mean_storage_mm + W_mm.mean()', ['C17']),
    ('simrise-order-desc', 'spowtd/simulate_rise.py', '    FROM average_rising_depth\n    ORDER BY zeta_mm"""', '    FROM average_rising_depth\n    ORDER BY zeta_mm DESC"""', ['C17', 'C19']),
    ('simrise-columns-swapped', 'spowtd/simulate_rise.py', '                        avg_storage_mm.tolist(),\n                        W_mm.tolist(),', '                        W_mm.tolist(),\n                        avg_storage_mm.tolist(),', ['C17', 'C19']),
    ('simrec-et-sign', 'spowtd/simulate_recession.py', '-et_mm_d - curvature_km * transmissivity_m2_d(zeta_mm)', 'et_mm_d - curvature_km * transmissivity_m2_d(zeta_mm)', ['C18']),
    ('simrec-curv-sign', 'spowtd/simulate_recession.py', '-et_mm_d - curvature_km * transmissivity_m2_d(zeta_mm)', '-et_mm_d + curvature_km * transmissivity_m2_d(zeta_mm)', ['C18']),
    ('simrec-revert-D10', 'spowtd/simulate_recession.py', "      ON e.from_epoch >= zi.start_epoch\n      AND e.thru_epoch <= zi.thru_epoch", "      ON e.from_epoch = zi.start_epoch", ['C18']),
    ('simrec-revert-D11', 'spowtd/simulate_recession.py', '(avg_zeta_cm * 10).tolist(),', 'avg_zeta_cm.tolist(),', ['C18']),
    ('simrec-not-reversed-obs', 'spowtd/simulate_recession.py', 'yaml.dump(list(reversed(elapsed_time_d.tolist())), outfile)', 'yaml.dump(elapsed_time_d.tolist(), outfile)', ['C18', 'C19']),
    ('simrec-peat-units', 'spowtd/simulate_recession.py', 'return transmissivity_m2_s(zeta_mm) * 24 * 3600', 'return transmissivity_m2_s(zeta_mm)', ['C18']),
    ('simrec-curvature-units', 'spowtd/simulate_recession.py', 'curvature_km=curvature_m_km2 * 1e-3,', 'curvature_km=curvature_m_km2,', ['C18']),
    # ---- pestfiles
    ('pest-precision-6', 'spowtd/pestfiles.py', '    outfile,\n    precision=17,\n):\n    """Generate PEST files for calibration against rise curve"""', '    outfile,\n    precision=6,\n):\n    """Generate PEST files for calibration against rise curve"""', ['C19']),
    ('pest-recession-order', 'spowtd/pestfiles.py', '    FROM average_recession_time\n    ORDER BY zeta_mm DESC"""', '    FROM average_recession_time\n    ORDER BY zeta_mm"""', ['C19']),
    ('pest-count-wrong-table', 'spowtd/pestfiles.py', "    n_zeta = cursor.fetchone()[0]\n    cursor.execute(\n        \"\"\"\n    SELECT mean_crossing_depth_mm AS dynamic_storage_mm", "    n_zeta = cursor.fetchone()[0] + 1\n    cursor.execute(\n        \"\"\"\n    SELECT mean_crossing_depth_mm AS dynamic_storage_mm", ['C19']),
    ('pest-placeholder-renamed', 'spowtd/pestfiles.py', "'    - @sy_knot_{}@'.format(str(i).ljust(16))\n            for i in range(\n                1, len(parameters['specific_yield']['sy_knots']) + 1\n            )\n        ]\n    lines += ['transmissivity:']\n    if parameters['transmissivity']['type'] == 'peatclsm':\n        lines += [\n            '  type: peatclsm',\n            '  Ksmacz0: @Ksmacz0", "'    - @sy_knots_{}@'.format(str(i).ljust(15))\n            for i in range(\n                1, len(parameters['specific_yield']['sy_knots']) + 1\n            )\n        ]\n    lines += ['transmissivity:']\n    if parameters['transmissivity']['type'] == 'peatclsm':\n        lines += [\n            '  type: peatclsm',\n            '  Ksmacz0: @Ksmacz0", ['C19']),
    ('pest-ins-columns', 'spowtd/pestfiles.py', "lines += ['l1 [e{}]3:24'.format(i + 1) for i in range(n_zeta)]", "lines += ['l1 [e{}]3:12'.format(i + 1) for i in range(n_zeta)]", ['C19']),
    ('pest-npargp', 'spowtd/pestfiles.py', '        npargp = 3  # Three parameter groups', '        npargp = 2  # Three parameter groups', ['C19']),
]


def sh(cmd, **kw):
    return subprocess.run(cmd, shell=True, capture_output=True, text=True, **kw)


def main():
    select = sys.argv[1:]
    assert sh('git -C {} diff --quiet'.format(REPO)).returncode == 0, '/repo has local changes'
    results = []
    for name, path, old, new, checks in BREAKS:
        if select and not any(s in name for s in select):
            continue
        full = os.path.join(REPO, path)
        src = open(full).read()
        if src.count(old) < 1:
            print('{:34s} PATTERN NOT FOUND'.format(name))
            results.append({'name': name, 'status': 'pattern-not-found'})
            continue
        try:
            open(full, 'w').write(src.replace(old, new, 1))
            row = {'name': name, 'checks': {}}
            for cid in checks:
                t0 = time.time()
                p = sh('cd {} && ./check {} quick'.format(HERE, cid))
                verdict = {0: 'held', 1: 'VIOLATION', 2: 'inconclusive'}.get(p.returncode, str(p.returncode))
                keys = [ln.split('key=')[1].split(' ')[0] for ln in p.stdout.splitlines() if ln.strip().startswith('key=')]
                row['checks'][cid] = {'verdict': verdict, 'keys': keys[:4], 'wall_s': round(time.time() - t0, 1)}
            caught = [c for c, r in row['checks'].items() if r['verdict'] == 'VIOLATION']
            row['caught_by'] = caught
            print('{:34s} {}'.format(name, ' '.join('{}={}'.format(c, r['verdict']) for c, r in row['checks'].items()) or '(no check listed)'))
            results.append(row)
        finally:
            sh('git -C {} checkout -- .'.format(REPO))
    with open(os.path.join(HERE, 'selfbreaks.log'), 'a') as f:
        f.write(json.dumps({'at': time.strftime('%Y-%m-%d %H:%M:%S'), 'results': results}) + '\n')
    missed = [r['name'] for r in results if 'checks' in r and r['checks'] and not r['caught_by']]
    print('missed:', missed)


if __name__ == '__main__':
    main()
