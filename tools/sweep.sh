#!/bin/bash
# usage: tools/sweep.sh <tier> <seeds...>   -- runs every check for each seed, prints one line per run
TIER="$1"; shift
for seed in "$@"; do
  for i in $(seq -w 1 20); do
    out=$(./check C$i "$TIER" --seed "$seed" 2>&1)
    rc=$?
    echo "seed=$seed C$i rc=$rc $(echo "$out" | tail -1)"
    if [ $rc -ne 0 ]; then echo "$out" | grep -E "VIOLATION|INCONCLUSIVE|key=" | cut -c1-600; fi
  done
done
