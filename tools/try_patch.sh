#!/bin/bash
# usage: tools/try_patch.sh <patch.diff> <check ids...>   -- applies the patch to /repo, runs the quick checks, reverts
set -u
PATCH="$1"; shift
cd /repo && git diff --quiet || { echo "/repo has local changes"; exit 3; }
git -C /repo apply "$PATCH" || { echo "patch does not apply"; exit 3; }
for id in "$@"; do
  (cd /verif && ./check "$id" "${TIER:-quick}" 2>&1 | grep -E "VIOLATION|INCONCLUSIVE|verdict|KNOWN" | cut -c1-400)
done
git -C /repo checkout -- .
