#!/usr/bin/env python3
"""Regenerate MANIFEST.json from the property modules (run from /verif)."""
import importlib, json, os, subprocess, sys
sys.path.insert(0, os.path.dirname(os.path.abspath(__file__)))
NOT_BUILT = []
checks = []
TECH = {}
for i in range(1, 21):
    pid = 'C{:02d}'.format(i)
    mod = importlib.import_module('spowtd_verif.props.' + pid.lower())
    if getattr(mod, 'RULE', '') == 'not built yet':
        NOT_BUILT.append(pid)
        continue
    checks.append({
        'property_id': pid,
        'quick_cmd': './check {} quick'.format(pid),
        'thorough_cmd': './check {} thorough'.format(pid),
        'evidence_file': 'evidence/{}.json'.format(pid),
        'replay_cmd_template': './check {} --replay {{path}}'.format(pid),
        'engine': getattr(mod, 'ENGINE', 'runtime-monitors'),
        'level_claimed': {
            'category': mod.LEVEL,
            'text': getattr(mod, 'LEVEL_TEXT', None) or (
                'Held on the executions observed: the real code is run on seeded hostile workloads while contracts on '
                'its functions and walkers over its dataset compare every execution with an independent oracle; '
                'the evidence file lists what the monitors saw (evaluations, classes reached, contract evaluations). '
                'Not a proof: the universal quantifier is sampled.'),
            'design_ref': 'DESIGN.md section 8, ' + pid,
        },
        'level_note': getattr(mod, 'LEVEL_NOTE', None) or (
            'Trusted base: the oracles in spowtd_verif/oracle_*.py (written from the property text without importing '
            'spowtd), numpy/scipy/sqlite3/pytz as installed. ' + ' '.join(getattr(mod, 'ASSUMPTIONS', []))),
        'technique': getattr(mod, 'TECHNIQUE', 'runtime monitoring: contracts on real functions + dataset walkers against reference oracles on generated workloads'),
    })
repo_fix_commits = []
manifest = {
    'version': 1,
    'setup_cmd': './check --selftest',
    'hooks': {
        'guard': 'SPOWTD_VERIF',
        'enable': 'no instrumentation lives in the repository: monitors attach from outside by patching module attributes of the imported spowtd package, by a sqlite3 connection factory and through the CLI entry point; SPOWTD_VERIF is reserved and unused',
        'baseline_off_cmd': 'cd /repo && /venv/bin/python -m pytest -ra -q -p no:cacheprovider --timeout=900 --continue-on-collection-errors',
        'source_commits': [],
        'add_only': True,
    },
    'engines': [
        {'name': 'runtime-monitors', 'path': 'spowtd_verif/', 'serves_properties': [c['property_id'] for c in checks],
         'kind_free_text': 'seeded workload generators -> real spowtd code imported from /repo working tree (source, no bytecode cache) with L1 contract wrappers, L2 dataset walkers, L3 sqlite statement trace + fault/kill injection, L4 CLI boundary + PEST mini-interpreter -> independent oracles -> three-valued verdict'},
    ],
    'checks': checks,
    'not_applicable': [{'property_id': p, 'reason': 'check under construction in this session; not claimed until it is built and silent on the unchanged tree'} for p in NOT_BUILT],
    'notes': 'Genuine defects repaired in /repo are unguarded fix: commits listed as fixed: lines in known-findings.txt; open findings are finding: lines there.',
}
json.dump(manifest, open('MANIFEST.json', 'w'), indent=1)
print('checks', len(checks), 'not built', NOT_BUILT)
